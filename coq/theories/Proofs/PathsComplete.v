(* Proofs/PathsComplete.v — completeness of path guessing (C18): a dump file
   that exists under the local GOROOT, a local GOPATH (src/ or pkg/mod/) or a
   go.mod module IS found by findRoots and rebased by updateLocations, under
   explicit unambiguity hypotheses about the disk and the dump.
   Everything is about the top-level [guess_paths] for an arbitrary disk
   oracle [fs] and arbitrary goroutines.  Statements: Properties/C18b.v. *)
From PP Require Import Base.Bytes Base.BytesX Base.GoResult Model.Types Model.Stack Model.Bucket Model.Paths.
From PP Require Import Proofs.Order Proofs.PathsBase Proofs.PathsProofs.
From Coq Require Import Permutation Sorted Lia.

(* ====================================================================== *)
(* 1. split_path of a clean path cut at a '/'                               *)
(* ====================================================================== *)

Definition normal_mode' (out : list bytes) (s : bytes) : Prop :=
  out <> [] \/ forallb (N.eqb b_slash) s = false.

Lemma special_flag_false (out : list bytes) (s : bytes) :
  normal_mode' out s ->
  (match out with [] => forallb (N.eqb b_slash) s | _ => false end) = false.
Proof. intros [H|H]; destruct out; try reflexivity; [contradiction|exact H]. Qed.

Lemma sp_normal_prefix p : forall o out s,
  normal_mode' out s -> split_path_go p (o ++ out) s = o ++ split_path_go p out s.
Proof.
  induction p as [|c p IH]; intros o out s Hn.
  - simpl. destruct s; [reflexivity|rewrite app_assoc; reflexivity].
  - cbn [split_path_go].
    rewrite (special_flag_false out s Hn).
    assert (Hn2 : normal_mode' (o ++ out) s).
    { destruct Hn as [H|H]; [left|right; exact H]. destruct o; [exact H|discriminate]. }
    rewrite (special_flag_false (o ++ out) s Hn2). rewrite !orb_false_r.
    destruct (N.eqb c b_slash) eqn:Ec; cbn [negb].
    + destruct s as [|x s].
      * apply IH. exact Hn.
      * rewrite <- app_assoc. apply IH. left. destruct out; discriminate.
    + apply IH. right. rewrite forallb_snoc, (N.eqb_sym b_slash c), Ec. apply andb_false_r.
Qed.

Lemma sp_go_app A : forall out s B,
  normal_mode' out s \/ (exists c, In c A /\ N.eqb c b_slash = false) ->
  split_path_go (A ++ b_slash :: B) out s = split_path_go B (split_path_go A out s) [].
Proof.
  induction A as [|c A IH]; intros out s B H.
  - destruct H as [H|(c & [] & _)].
    cbn [app split_path_go]. rewrite (special_flag_false out s H).
    rewrite N.eqb_refl. cbn [negb orb].
    destruct s; reflexivity.
  - cbn [app split_path_go].
    destruct (negb (N.eqb c b_slash) || match out with [] => forallb (N.eqb b_slash) s | _ => false end) eqn:E.
    + apply IH.
      destruct (N.eqb c b_slash) eqn:Ec.
      * (* a slash kept: initial mode; the non-slash byte is further on *)
        cbn [negb orb] in E.
        destruct H as [H|(c' & [Hc'|Hc'] & Hn)].
        -- rewrite (special_flag_false out s H) in E. discriminate E.
        -- subst c'. rewrite Ec in Hn. discriminate Hn.
        -- right. exists c'. split; assumption.
      * left. right. rewrite forallb_snoc, (N.eqb_sym b_slash c), Ec. apply andb_false_r.
    + apply orb_false_iff in E as [E1 E2]. apply negb_false_iff in E1.
      assert (Hn : normal_mode' out s).
      { destruct out; [right; exact E2|left; discriminate]. }
      destruct s as [|x s].
      * apply IH. left. exact Hn.
      * apply IH. left. left. destruct out; discriminate.
Qed.

Lemma clean_tail_app_slash A : forall b B,
  clean_tail b (A ++ b_slash :: B) = true -> clean_tail b A = true /\ clean_tail true B = true.
Proof.
  induction A as [|c A IH]; intros b B H.
  - cbn [app clean_tail] in H. rewrite N.eqb_refl in H. apply andb_true_iff in H as [Hb H].
    split; [exact Hb|exact H].
  - cbn [app clean_tail] in H |- *. destruct (N.eqb c b_slash).
    + apply andb_true_iff in H as [Hb H]. destruct (IH true B H) as [H1 H2].
      split; [rewrite Hb, H1; reflexivity|exact H2].
    + apply (IH false B H).
Qed.

Lemma clean_has_nonslash A : A <> [] -> clean_path A = true -> exists c, In c A /\ N.eqb c b_slash = false.
Proof.
  intros Hne H. destruct A as [|c A]; [contradiction|].
  unfold clean_path in H. cbn [clean_tail] in H.
  destruct (N.eqb c b_slash) eqn:Ec.
  - cbn [negb andb] in H. destruct A as [|c' A]; [discriminate H|].
    cbn [clean_tail] in H. destruct (N.eqb c' b_slash) eqn:Ec'; [discriminate H|].
    exists c'. split; [right; left; reflexivity|exact Ec'].
  - exists c. split; [left; reflexivity|exact Ec].
Qed.

Theorem split_path_app A B :
  A <> [] -> clean_path (A ++ b_slash :: B) = true ->
  split_path (A ++ b_slash :: B) = split_path A ++ split_path B /\
  clean_path A = true /\ clean_path B = true /\ B <> [].
Proof.
  intros Hne Hc. unfold clean_path in Hc.
  destruct (clean_tail_app_slash A false B Hc) as [HA HB].
  assert (HB' : clean_path B = true) by (apply clean_tail_true_false; exact HB).
  assert (HBne : B <> []) by (intros ->; discriminate HB).
  split; [|split; [exact HA|split; [exact HB'|exact HBne]]].
  unfold split_path. rewrite sp_go_app by (right; apply clean_has_nonslash; assumption).
  destruct B as [|c B]; [contradiction|].
  cbn [clean_tail] in HB. destruct (N.eqb c b_slash) eqn:Ec; [discriminate HB|].
  cbn [split_path_go]. rewrite Ec. cbn [negb orb app].
  rewrite <- (app_nil_r (split_path_go A [] [])) at 1.
  apply sp_normal_prefix. right. cbn [app forallb]. rewrite (N.eqb_sym b_slash c), Ec. reflexivity.
Qed.

Lemma split_path_go_nonempty p : forall out s,
  Forall (fun x : bytes => x <> []) out -> Forall (fun x : bytes => x <> []) (split_path_go p out s).
Proof.
  induction p as [|c p IH]; intros out s Ho.
  - cbn. destruct s as [|x s]; [exact Ho|].
    apply Forall_app. split; [exact Ho|]. constructor; [discriminate|constructor].
  - cbn [split_path_go].
    destruct (negb (N.eqb c b_slash) || match out with [] => forallb (N.eqb b_slash) s | _ => false end).
    + apply IH, Ho.
    + destruct s as [|x s]; [apply IH, Ho|].
      apply IH. apply Forall_app. split; [exact Ho|]. constructor; [discriminate|constructor].
Qed.

Lemma split_path_nonempty f : Forall (fun x : bytes => x <> []) (split_path f).
Proof. apply split_path_go_nonempty. constructor. Qed.

Lemma path_join_nonempty l : l <> [] -> Forall (fun x : bytes => x <> []) l -> path_join l <> [].
Proof.
  intros Hne Hf. destruct l as [|x l]; [contradiction|].
  inversion Hf as [|? ? Hx _]; subst.
  destruct l as [|y l].
  - exact Hx.
  - rewrite path_join_cons by discriminate. destruct x; [contradiction|discriminate].
Qed.

Lemma split_path_clean_nonnil f : f <> [] -> clean_path f = true -> split_path f <> [].
Proof.
  intros Hne Hc E. apply Hne. rewrite <- (split_path_join f Hc), E. reflexivity.
Qed.

(* ====================================================================== *)
(* 2. isRootedIn, read on the bytes of a clean path                         *)
(* ====================================================================== *)

(* [f] is [X], a '/', then [tail], and [tail] is a regular file under [root] *)
Definition hit (fs : fsys) (root f X tail : bytes) : Prop :=
  X <> [] /\ f = X ++ b_slash :: tail /\ is_file fs (root ++ b_slash :: tail) = true.

Lemma rooted_go_unique fs root V : forall post pre,
  (exists k post', post = k ++ post' /\ post' <> [] /\
     is_file fs (path_join [root; path_join post']) = true) ->
  (forall k post', post = k ++ post' -> post' <> [] ->
     is_file fs (path_join [root; path_join post']) = true -> path_join (pre ++ k) = V) ->
  is_rooted_in_go fs root pre post = V.
Proof.
  induction post as [|x post IH]; intros pre (k & post' & E & Hne & Hf) Hall.
  - exfalso. destruct k; [simpl in E; subst post'; contradiction|discriminate E].
  - cbn [is_rooted_in_go].
    destruct (is_file fs (path_join [root; path_join (x :: post)])) eqn:Ef.
    + rewrite <- (Hall [] (x :: post) eq_refl); [rewrite app_nil_r; reflexivity|discriminate|exact Ef].
    + destruct k as [|y k].
      * simpl in E. subst post'. rewrite Hf in Ef. discriminate Ef.
      * injection E as <- E. apply IH.
        -- exists k, post'. split; [exact E|]. split; [exact Hne|exact Hf].
        -- intros k2 post2 E2 Hne2 Hf2. rewrite <- app_assoc. apply (Hall (x :: k2) post2).
           ++ simpl. rewrite E2. reflexivity.
           ++ exact Hne2.
           ++ exact Hf2.
Qed.

Lemma comp_split_hit fs root f pre post :
  clean_path f = true -> split_path f = pre ++ post -> pre <> [] -> post <> [] ->
  is_file fs (path_join [root; path_join post]) = true ->
  hit fs root f (path_join pre) (path_join post).
Proof.
  intros Hc E Hpre Hpost Hf.
  pose proof (split_path_nonempty f) as Hall. rewrite E in Hall. apply Forall_app in Hall as [Hall _].
  split; [apply path_join_nonempty; assumption|].
  split; [|exact Hf].
  rewrite <- (split_path_join f Hc), E. apply (path_join_app pre post Hpre Hpost).
Qed.

Lemma hit_comp_split fs root f X tail :
  clean_path f = true -> hit fs root f X tail ->
  exists pre post, split_path f = pre ++ post /\ pre <> [] /\ post <> [] /\
    path_join pre = X /\ path_join post = tail /\ clean_path X = true /\ clean_path tail = true.
Proof.
  intros Hc (HX & E & Hf). subst f.
  destruct (split_path_app X tail HX Hc) as (Es & HcX & Hct & Htne).
  exists (split_path X), (split_path tail). split; [exact Es|].
  split; [apply split_path_clean_nonnil; assumption|].
  split; [apply split_path_clean_nonnil; assumption|].
  split; [apply split_path_join, HcX|]. split; [apply split_path_join, Hct|]. split; assumption.
Qed.

Theorem rooted_unique fs root f X tail :
  clean_path f = true -> hit fs root f X tail ->
  (forall X' tail', hit fs root f X' tail' -> X' = X) ->
  is_rooted_in fs root (split_path f) = X.
Proof.
  intros Hc Hh Hall.
  destruct (hit_comp_split fs root f X tail Hc Hh) as (pre & post & E & Hpre & Hpost & EX & Et & _ & _).
  destruct Hh as (_ & _ & Hf).
  unfold is_rooted_in. rewrite E. destruct pre as [|x k]; [contradiction|]. cbn [app].
  apply rooted_go_unique.
  - exists k, post. split; [reflexivity|]. split; [exact Hpost|]. rewrite path_join2, Et. exact Hf.
  - intros k2 post2 E2 Hne2 Hf2.
    apply (Hall (path_join ([x] ++ k2)) (path_join post2)).
    apply comp_split_hit; [exact Hc| |discriminate|exact Hne2|exact Hf2].
    rewrite E. cbn [app]. rewrite E2. reflexivity.
Qed.

Theorem rooted_is_hit fs root f :
  clean_path f = true -> is_rooted_in fs root (split_path f) <> [] ->
  exists tail, hit fs root f (is_rooted_in fs root (split_path f)) tail.
Proof.
  intros Hc Hr.
  destruct (is_rooted_in_spec fs root (split_path f) _ eq_refl Hr) as (pre & post & E & H1 & H2 & H3 & H4).
  exists (path_join post). rewrite H4. apply comp_split_hit; assumption.
Qed.

Theorem rooted_none fs root f :
  clean_path f = true -> (forall X tail, ~ hit fs root f X tail) ->
  is_rooted_in fs root (split_path f) = [].
Proof.
  intros Hc Hno. destruct (is_rooted_in fs root (split_path f)) as [|x r] eqn:E; [reflexivity|].
  exfalso. assert (Hr : is_rooted_in fs root (split_path f) <> []) by (rewrite E; discriminate).
  destruct (rooted_is_hit fs root f Hc Hr) as [tail Hh]. apply (Hno _ _ Hh).
Qed.

(* the suffix test applied to the result of isRootedIn *)
Lemma strip_suffix_root_app x suffix : strip_suffix_root (x ++ suffix) suffix = Some x.
Proof.
  unfold strip_suffix_root, has_suffix. rewrite app_length.
  replace (List.length x + List.length suffix - List.length suffix) with (List.length x) by lia.
  rewrite skipn_app, skipn_all, Nat.sub_diag. cbn [skipn app].
  rewrite beq_refl. replace (Nat.leb (List.length suffix) (List.length x + List.length suffix)) with true
    by (symmetry; apply Nat.leb_le; lia).
  cbn [andb]. rewrite firstn_app, firstn_all, Nat.sub_diag. cbn [firstn]. rewrite app_nil_r. reflexivity.
Qed.

Lemma strip_suffix_root_nil suffix : suffix <> [] -> strip_suffix_root [] suffix = None.
Proof. destruct suffix; [intros H; contradiction|reflexivity]. Qed.

Lemma src_assoc (l t : bytes) : (l ++ s2b "/src") ++ b_slash :: t = l ++ s2b "/src/" ++ t.
Proof. rewrite <- app_assoc. reflexivity. Qed.
Lemma mod_assoc (l t : bytes) : (l ++ s2b "/pkg/mod") ++ b_slash :: t = l ++ s2b "/pkg/mod/" ++ t.
Proof. rewrite <- app_assoc. reflexivity. Qed.

Lemma rooted_go_first fs root : forall post pre,
  (exists k post', post = k ++ post' /\ post' <> [] /\
     is_file fs (path_join [root; path_join post']) = true) ->
  exists k post', post = k ++ post' /\ post' <> [] /\
     is_file fs (path_join [root; path_join post']) = true /\
     is_rooted_in_go fs root pre post = path_join (pre ++ k).
Proof.
  induction post as [|x post IH]; intros pre (k & post' & E & Hne & Hf).
  - exfalso. destruct k; [simpl in E; subst post'; contradiction|discriminate E].
  - cbn [is_rooted_in_go].
    destruct (is_file fs (path_join [root; path_join (x :: post)])) eqn:Ef.
    + exists [], (x :: post). split; [reflexivity|]. split; [discriminate|]. split; [exact Ef|].
      rewrite app_nil_r. reflexivity.
    + destruct k as [|y k].
      * simpl in E. subst post'. rewrite Hf in Ef. discriminate Ef.
      * injection E as <- E.
        destruct (IH (pre ++ [x])) as (k2 & post2 & E2 & Hne2 & Hf2 & Hr).
        { exists k, post'. split; [exact E|]. split; [exact Hne|exact Hf]. }
        exists (x :: k2), post2. split; [simpl; rewrite E2; reflexivity|]. split; [exact Hne2|].
        split; [exact Hf2|]. rewrite Hr, <- app_assoc. reflexivity.
Qed.

(* as soon as some cut of [f] hits, isRootedIn answers with the root of a hit *)
Theorem rooted_first fs root f X tail :
  clean_path f = true -> hit fs root f X tail ->
  exists X' tail', hit fs root f X' tail' /\ is_rooted_in fs root (split_path f) = X'.
Proof.
  intros Hc Hh.
  destruct (hit_comp_split fs root f X tail Hc Hh) as (pre & post & E & Hpre & Hpost & EX & Et & _ & _).
  destruct Hh as (_ & _ & Hf).
  unfold is_rooted_in. rewrite E. destruct pre as [|x k]; [contradiction|]. cbn [app].
  destruct (rooted_go_first fs root (k ++ post) [x]) as (k2 & post2 & E2 & Hne2 & Hf2 & Hr).
  { exists k, post. split; [reflexivity|]. split; [exact Hpost|]. rewrite path_join2, Et. exact Hf. }
  exists (path_join ([x] ++ k2)), (path_join post2). split; [|exact Hr].
  apply comp_split_hit; [exact Hc| |discriminate|exact Hne2|exact Hf2].
  rewrite E. cbn [app]. rewrite E2. reflexivity.
Qed.

(* ====================================================================== *)
(* 3. one step of findRoots, by cases                                       *)
(* ====================================================================== *)

Section Step.
  Variable fs : fsys.               (* the disk oracle *)
  Variable lgoroot : bytes.         (* the local GOROOT *)
  Variable lgopaths : list bytes.   (* the local GOPATH entries *)

  Definition goroot_probe (st : roots) (f : bytes) : option bytes :=
    match remote_goroot st with
    | [] => strip_suffix_root (is_rooted_in fs (lgoroot ++ s2b "/src") (split_path f)) (s2b "/src")
    | _ => None
    end.

  Definition mod_walk (st : roots) (f : bytes) : list bytes * option (bytes * bytes) :=
    if Nat.ltb 1 (List.length (split_path f))
    then is_go_module_go fs (gm_cache st) (prefixes_desc (removelast (split_path f)))
    else (gm_cache st, None).

  Inductive step_case (st : roots) (f : bytes) : roots -> Prop :=
  | SC_skip_goroot :
      remote_goroot st <> [] -> has_prefix f (remote_goroot st ++ s2b "/src/") = true ->
      step_case st f st
  | SC_skip_gopath :
      has_src_prefix_in f (map fst (remote_gopaths st)) = true -> step_case st f st
  | SC_skip_mod :
      has_prefix_in f (map fst (local_gomods st)) = true -> In (path_dir f) (gm_cache st) ->
      step_case st f st
  | SC_goroot r :
      remote_goroot st = [] ->
      strip_suffix_root (is_rooted_in fs (lgoroot ++ s2b "/src") (split_path f)) (s2b "/src") = Some r ->
      step_case st f (mkRoots r (remote_gopaths st) (local_gomods st) (gm_cache st) (missing st))
  | SC_gopath r l :
      has_src_prefix_in f (map fst (remote_gopaths st)) = false ->
      goroot_probe st f = None ->
      try_gopaths fs (split_path f) lgopaths = Some (r, l) ->
      step_case st f (mkRoots (remote_goroot st) (map_set (remote_gopaths st) r l) (local_gomods st)
                              (gm_cache st) (missing st))
  | SC_mod cache' root path :
      goroot_probe st f = None ->
      try_gopaths fs (split_path f) lgopaths = None ->
      mod_walk st f = (cache', Some (root, path)) ->
      step_case st f (mkRoots (remote_goroot st) (remote_gopaths st) (map_set (local_gomods st) root path)
                              cache' (missing st))
  | SC_undermod cache' :
      goroot_probe st f = None ->
      try_gopaths fs (split_path f) lgopaths = None ->
      mod_walk st f = (cache', None) ->
      has_prefix_in f (map fst (local_gomods st)) = true ->
      step_case st f (mkRoots (remote_goroot st) (remote_gopaths st) (local_gomods st) cache' (missing st))
  | SC_main cache' :
      goroot_probe st f = None ->
      try_gopaths fs (split_path f) lgopaths = None ->
      mod_walk st f = (cache', None) ->
      has_prefix_in f (map fst (local_gomods st)) = false ->
      is_file fs f = true ->
      step_case st f (mkRoots (remote_goroot st) (remote_gopaths st)
                              (map_set (local_gomods st) (path_dir f) (s2b "main")) cache' (missing st))
  | SC_missing cache' :
      goroot_probe st f = None ->
      try_gopaths fs (split_path f) lgopaths = None ->
      mod_walk st f = (cache', None) ->
      has_prefix_in f (map fst (local_gomods st)) = false ->
      is_file fs f = false ->
      step_case st f (mkRoots (remote_goroot st) (remote_gopaths st) (local_gomods st) cache' (S (missing st))).

  Lemma roots_eta st :
    mkRoots (remote_goroot st) (remote_gopaths st) (local_gomods st) (gm_cache st) (missing st) = st.
  Proof. destruct st; reflexivity. Qed.

  Theorem step_cases st f : step_case st f (find_roots_step fs lgoroot lgopaths st f).
  Proof.
    unfold find_roots_step.
    destruct (match remote_goroot st with [] => false | _ => has_prefix f (remote_goroot st ++ s2b "/src/") end) eqn:E1.
    { apply SC_skip_goroot; [intros H; rewrite H in E1; discriminate E1|].
      destruct (remote_goroot st); [discriminate E1|exact E1]. }
    destruct (has_src_prefix_in f (map fst (remote_gopaths st))) eqn:E2; [apply SC_skip_gopath; exact E2|].
    destruct (has_prefix_in f (map fst (local_gomods st)) && existsb (beq (path_dir f)) (gm_cache st)) eqn:E3.
    { apply andb_true_iff in E3 as [E3 E4]. apply SC_skip_mod; [exact E3|apply existsb_beq_in; exact E4]. }
    cbv zeta. fold (goroot_probe st f). fold (mod_walk st f).
    destruct (goroot_probe st f) as [r|] eqn:Eg.
    { unfold goroot_probe in Eg. destruct (remote_goroot st) eqn:Er; [|discriminate Eg].
      apply SC_goroot; [exact Er|exact Eg]. }
    destruct (try_gopaths fs (split_path f) lgopaths) as [[r l]|] eqn:Et.
    { apply SC_gopath; assumption. }
    destruct (mod_walk st f) as [cache' gm] eqn:Ew.
    destruct gm as [[root path]|]; [apply SC_mod; assumption|].
    destruct (has_prefix_in f (map fst (local_gomods st))) eqn:Eh; [apply SC_undermod; assumption|].
    destruct (is_file fs f) eqn:Ef; [apply SC_main; assumption|apply SC_missing; assumption].
  Qed.
End Step.

(* ====================================================================== *)
(* 4. candidates read off the disk; the walk only records candidates        *)
(* ====================================================================== *)

Lemma map_set_keys m k v : forall k', In k' (map fst (map_set m k v)) <-> k' = k \/ In k' (map fst m).
Proof.
  induction m as [|[k0 v0] m IH]; intros k'; cbn [map_set map fst In].
  - split; [intros [H|[]]; left; symmetry; exact H|intros [H|[]]; left; symmetry; exact H].
  - destruct (beq k k0) eqn:E; cbn [map fst In].
    + apply beq_eq in E. subst k0. split.
      * intros [H|H]; [left; symmetry; exact H|right; right; exact H].
      * intros [H|[H|H]]; [left; symmetry; exact H|left; exact H|right; exact H].
    + rewrite IH. split.
      * intros [H|[H|H]]; [right; left; exact H|left; exact H|right; right; exact H].
      * intros [H|[H|H]]; [right; left; exact H|left; exact H|right; right; exact H].
Qed.

Lemma prefixes_desc_go_spec {A} : forall n (l c : list A),
  In c ((fix go (n : nat) (l : list A) : list (list A) :=
           match n with
           | O => []
           | S n' => match removelast l with [] => [] | a :: l0 => (a :: l0) :: go n' (a :: l0) end
           end) n l) ->
  c <> [] /\ exists rest, l = c ++ rest.
Proof.
  induction n as [|n IH]; intros l c H; [contradiction|].
  destruct (removelast l) as [|y l'] eqn:E; [contradiction|].
  assert (Hl : l <> []) by (intros ->; discriminate E).
  pose proof (app_removelast_last y Hl) as Hsplit. rewrite E in Hsplit.
  destruct H as [<-|H].
  - split; [discriminate|]. exists [last l y]. exact Hsplit.
  - destruct (IH (y :: l') c H) as [Hc [rest Hr]]. split; [exact Hc|].
    exists (rest ++ [last l y]). rewrite Hsplit at 1. rewrite Hr, <- app_assoc. reflexivity.
Qed.

Lemma prefixes_desc_spec {A} (l c : list A) : In c (prefixes_desc l) -> c <> [] /\ exists rest, l = c ++ rest.
Proof.
  unfold prefixes_desc. destruct l as [|x l]; [intros []|].
  intros [<-|H].
  - split; [discriminate|]. exists []. rewrite app_nil_r. reflexivity.
  - exact (prefixes_desc_go_spec (List.length (x :: l)) (x :: l) c H).
Qed.

Lemma is_go_module_go_in fs cands : forall cache cache' prefix m,
  is_go_module_go fs cache cands = (cache', Some (prefix, m)) ->
  exists parts, In parts cands /\ prefix = path_join parts.
Proof.
  induction cands as [|parts rest IH]; intros cache cache' prefix m H; cbn [is_go_module_go] in H; [discriminate H|].
  cbv zeta in H.
  destruct (existsb (beq (path_join parts)) cache); [discriminate H|].
  destruct (fs_lookup fs (path_join [path_join parts; s2b "go.mod"])) as [content|].
  - destruct (find_module content) as [m'|].
    + injection H as _ <- _. exists parts. split; [left; reflexivity|reflexivity].
    + destruct (IH _ _ _ _ H) as (p & Hp & E). exists p. split; [right; exact Hp|exact E].
  - destruct (IH _ _ _ _ H) as (p & Hp & E). exists p. split; [right; exact Hp|exact E].
Qed.

Section Complete.
  Variable fs : fsys.               (* the disk oracle *)
  Variable lgoroot : bytes.         (* the local GOROOT *)
  Variable lgopaths : list bytes.   (* the local GOPATH entries *)
  Variable files : list bytes.      (* the source files named by the dump *)
  Hypothesis Hclean : forall g, In g files -> clean_path g = true.

  (* G is a possible remote GOROOT: some dump file is G/src/tail and tail exists under the local GOROOT *)
  Definition goroot_cand (G : bytes) : Prop :=
    exists g tail, In g files /\ g = G ++ s2b "/src/" ++ tail /\
      is_file fs (lgoroot ++ s2b "/src/" ++ tail) = true.
  (* P is a possible remote GOPATH mapped to the local entry l *)
  Definition gopath_cand (P l : bytes) : Prop :=
    exists g mid tail, In g files /\ In l lgopaths /\ (mid = s2b "/src/" \/ mid = s2b "/pkg/mod/") /\
      g = P ++ mid ++ tail /\ is_file fs (l ++ mid ++ tail) = true.
  (* K/go.mod exists and carries the module directive m *)
  Definition module_dir (K m : bytes) : Prop :=
    exists content, fs_lookup fs (K ++ s2b "/go.mod") = Some content /\ find_module content = Some m.
  Definition under (K f : bytes) : Prop := is_prefix (K ++ s2b "/") f.

  (* a tail of g exists under root/sfx, and every cut of g whose tail exists there ends with sfx:
     this is when isRootedIn + HasSuffix succeed *)
  Definition found_in (root sfx g : bytes) : Prop :=
    (exists X tail, hit fs (root ++ sfx) g X tail) /\
    (forall X tail, hit fs (root ++ sfx) g X tail -> has_suffix X sfx = true).
  Definition goroot_found (g : bytes) : Prop := found_in lgoroot (s2b "/src") g.
  Definition gopath_found (g : bytes) : Prop :=
    exists l, In l lgopaths /\ (found_in l (s2b "/src") g \/ found_in l (s2b "/pkg/mod") g).

  Lemma strip_none_notfound root sfx g :
    clean_path g = true ->
    strip_suffix_root (is_rooted_in fs (root ++ sfx) (split_path g)) sfx = None ->
    ~ found_in root sfx g.
  Proof.
    intros Hc Hs [(X & tail & Hh) Hall].
    destruct (rooted_first fs (root ++ sfx) g X tail Hc Hh) as (X' & tail' & Hh' & E).
    unfold strip_suffix_root in Hs. rewrite E, (Hall X' tail' Hh') in Hs. discriminate Hs.
  Qed.

  Lemma strip_some_hit root sfx g r :
    clean_path g = true -> sfx <> [] ->
    strip_suffix_root (is_rooted_in fs (root ++ sfx) (split_path g)) sfx = Some r ->
    exists tail, hit fs (root ++ sfx) g (r ++ sfx) tail.
  Proof.
    intros Hc Hs H. apply strip_suffix_root_some in H.
    assert (Hr : is_rooted_in fs (root ++ sfx) (split_path g) <> []).
    { rewrite H. destruct r; [exact Hs|discriminate]. }
    destruct (rooted_is_hit fs (root ++ sfx) g Hc Hr) as [tail Hh]. exists tail. rewrite <- H. exact Hh.
  Qed.

  Lemma goroot_probe_cand g r :
    In g files ->
    strip_suffix_root (is_rooted_in fs (lgoroot ++ s2b "/src") (split_path g)) (s2b "/src") = Some r ->
    goroot_cand r.
  Proof.
    intros Hg H. destruct (strip_some_hit lgoroot (s2b "/src") g r (Hclean g Hg)) as [tail (_ & E & Hf)];
      [discriminate|exact H|].
    exists g, tail. split; [exact Hg|]. rewrite src_assoc in E, Hf. split; assumption.
  Qed.

  Lemma try_gopaths_cand g ls r l :
    In g files -> (forall x, In x ls -> In x lgopaths) ->
    try_gopaths fs (split_path g) ls = Some (r, l) -> gopath_cand r l.
  Proof.
    intros Hg Hsub. induction ls as [|l0 ls IH]; cbn [try_gopaths]; intros H; [discriminate H|].
    destruct (strip_suffix_root (is_rooted_in fs (l0 ++ s2b "/src") (split_path g)) (s2b "/src")) as [x|] eqn:E1.
    { injection H as <- <-.
      destruct (strip_some_hit l0 (s2b "/src") g x (Hclean g Hg)) as [tail (_ & E & Hf)]; [discriminate|exact E1|].
      exists g, (s2b "/src/"), tail. split; [exact Hg|]. split; [apply Hsub; left; reflexivity|].
      split; [left; reflexivity|]. rewrite src_assoc in E, Hf. split; assumption. }
    destruct (strip_suffix_root (is_rooted_in fs (l0 ++ s2b "/pkg/mod") (split_path g)) (s2b "/pkg/mod")) as [x|] eqn:E2.
    { injection H as <- <-.
      destruct (strip_some_hit l0 (s2b "/pkg/mod") g x (Hclean g Hg)) as [tail (_ & E & Hf)]; [discriminate|exact E2|].
      exists g, (s2b "/pkg/mod/"), tail. split; [exact Hg|]. split; [apply Hsub; left; reflexivity|].
      split; [right; reflexivity|]. rewrite mod_assoc in E, Hf. split; assumption. }
    apply IH; [intros x Hx; apply Hsub; right; exact Hx|exact H].
  Qed.

  Lemma try_gopaths_none g ls :
    clean_path g = true -> try_gopaths fs (split_path g) ls = None ->
    forall l, In l ls -> ~ found_in l (s2b "/src") g /\ ~ found_in l (s2b "/pkg/mod") g.
  Proof.
    intros Hc. induction ls as [|l0 ls IH]; cbn [try_gopaths]; intros H l Hl; [contradiction|].
    destruct (strip_suffix_root (is_rooted_in fs (l0 ++ s2b "/src") (split_path g)) (s2b "/src")) as [x|] eqn:E1;
      [discriminate H|].
    destruct (strip_suffix_root (is_rooted_in fs (l0 ++ s2b "/pkg/mod") (split_path g)) (s2b "/pkg/mod")) as [x|] eqn:E2;
      [discriminate H|].
    destruct Hl as [<-|Hl]; [|apply (IH H l Hl)].
    split; apply strip_none_notfound; assumption.
  Qed.

  Lemma try_gopaths_none_notfound g :
    clean_path g = true -> try_gopaths fs (split_path g) lgopaths = None -> ~ gopath_found g.
  Proof.
    intros Hc H (l & Hl & Hf). destruct (try_gopaths_none g lgopaths Hc H l Hl) as [H1 H2].
    destruct Hf as [Hf|Hf]; [apply (H1 Hf)|apply (H2 Hf)].
  Qed.

  Lemma mod_walk_some st g cache' root path :
    clean_path g = true -> mod_walk fs st g = (cache', Some (root, path)) ->
    module_dir root path /\ under root g.
  Proof.
    intros Hc H. unfold mod_walk in H.
    destruct (Nat.ltb 1 (List.length (split_path g))); [|discriminate H].
    split; [apply (is_go_module_go_some fs _ _ _ _ _ H)|].
    destruct (is_go_module_go_in fs _ _ _ _ _ H) as (parts & Hp & E).
    apply prefixes_desc_spec in Hp as [Hne [rest Hr]].
    assert (Hparts : split_path g <> []).
    { intros E0. rewrite E0 in Hr. destruct parts; [contradiction|discriminate Hr]. }
    assert (Hs : split_path g = parts ++ rest ++ [last (split_path g) []]).
    { rewrite app_assoc. etransitivity; [exact (app_removelast_last [] Hparts)|]. f_equal. exact Hr. }
    set (lst := last (split_path g) []) in *.
    exists (path_join (rest ++ [lst])).
    rewrite <- (split_path_join g Hc) at 1. rewrite Hs, E, <- app_assoc.
    apply path_join_app; [exact Hne|destruct rest; discriminate].
  Qed.

  Record sound (st : roots) : Prop := mkSound {
    snd_goroot : remote_goroot st <> [] -> goroot_cand (remote_goroot st);
    snd_gopaths : forall r l, In (r, l) (remote_gopaths st) -> gopath_cand r l;
    snd_gomods : forall K v, In (K, v) (local_gomods st) ->
      exists g, In g files /\ ~ gopath_found g /\ (remote_goroot st = [] -> ~ goroot_found g) /\
        ((module_dir K v /\ under K g) \/ (v = s2b "main" /\ K = path_dir g /\ is_file fs g = true)) }.

  Lemma sound_init : sound (mkRoots [] [] [] [] 0).
  Proof. split; cbn; [intros H; contradiction|intros r l []|intros K v []]. Qed.

  Lemma step_sound st f : sound st -> In f files -> sound (find_roots_step fs lgoroot lgopaths st f).
  Proof.
    intros [S1 S2 S3] Hf. pose proof (Hclean f Hf) as Hc.
    assert (Hnew : goroot_probe fs lgoroot st f = None -> try_gopaths fs (split_path f) lgopaths = None ->
                   ~ gopath_found f /\ (remote_goroot st = [] -> ~ goroot_found f)).
    { intros Hg Ht. split; [apply try_gopaths_none_notfound; assumption|].
      intros Er. unfold goroot_probe in Hg. rewrite Er in Hg. apply strip_none_notfound; assumption. }
    destruct (step_cases fs lgoroot lgopaths st f)
      as [Hg Hp|Hp|Hp Hd|r Hg Hs|r l Hp Hg Ht|cache' root path Hg Ht Hw|cache' Hg Ht Hw Hu
          |cache' Hg Ht Hw Hu Hfile|cache' Hg Ht Hw Hu Hfile];
      try (split; assumption).
    - split; cbn [remote_goroot remote_gopaths local_gomods].
      + intros _. apply (goroot_probe_cand f r Hf Hs).
      + exact S2.
      + intros K v Hin. destruct (S3 K v Hin) as (g & H1 & H2 & H3 & H4).
        exists g. split; [exact H1|]. split; [exact H2|]. split; [intros _; apply H3, Hg|exact H4].
    - split; cbn [remote_goroot remote_gopaths local_gomods]; [exact S1| |exact S3].
      intros r' l' Hin. apply map_set_in in Hin as [[-> ->]|Hin]; [|apply (S2 r' l' Hin)].
      apply (try_gopaths_cand f lgopaths r l Hf (fun x H => H) Ht).
    - destruct (Hnew Hg Ht) as [N1 N2].
      split; cbn [remote_goroot remote_gopaths local_gomods]; [exact S1|exact S2|].
      intros K v Hin. apply map_set_in in Hin as [[-> ->]|Hin]; [|apply (S3 K v Hin)].
      exists f. split; [exact Hf|]. split; [exact N1|]. split; [exact N2|]. left.
      apply (mod_walk_some st f cache' root path Hc Hw).
    - destruct (Hnew Hg Ht) as [N1 N2].
      split; cbn [remote_goroot remote_gopaths local_gomods]; [exact S1|exact S2|].
      intros K v Hin. apply map_set_in in Hin as [[-> ->]|Hin]; [|apply (S3 K v Hin)].
      exists f. split; [exact Hf|]. split; [exact N1|]. split; [exact N2|]. right.
      split; [reflexivity|]. split; [reflexivity|exact Hfile].
  Qed.

  Lemma fold_sound l : forall st, sound st -> (forall g, In g l -> In g files) ->
    sound (fold_left (find_roots_step fs lgoroot lgopaths) l st).
  Proof.
    induction l as [|f l IH]; intros st Hs Hin; cbn [fold_left]; [exact Hs|].
    apply IH; [|intros g Hg; apply Hin; right; exact Hg].
    apply step_sound; [exact Hs|apply Hin; left; reflexivity].
  Qed.

  (* ---- what a step never undoes ---- *)
  Lemma step_goroot_mono st f :
    remote_goroot st <> [] -> remote_goroot (find_roots_step fs lgoroot lgopaths st f) = remote_goroot st.
  Proof.
    intros Hne. destruct (step_cases fs lgoroot lgopaths st f); try reflexivity. contradiction.
  Qed.

  Lemma step_gopath_keys st f k :
    In k (map fst (remote_gopaths st)) -> In k (map fst (remote_gopaths (find_roots_step fs lgoroot lgopaths st f))).
  Proof.
    intros H. destruct (step_cases fs lgoroot lgopaths st f); try exact H.
    cbn [remote_gopaths]. apply map_set_keys. right. exact H.
  Qed.

  Lemma step_gomod_keys st f k :
    In k (map fst (local_gomods st)) -> In k (map fst (local_gomods (find_roots_step fs lgoroot lgopaths st f))).
  Proof.
    intros H. destruct (step_cases fs lgoroot lgopaths st f); try exact H;
      cbn [local_gomods]; apply map_set_keys; right; exact H.
  Qed.

  Lemma fold_goroot_mono l : forall st, remote_goroot st <> [] ->
    remote_goroot (fold_left (find_roots_step fs lgoroot lgopaths) l st) = remote_goroot st.
  Proof.
    induction l as [|f l IH]; intros st H; cbn [fold_left]; [reflexivity|].
    rewrite IH; [apply step_goroot_mono, H|rewrite step_goroot_mono; exact H].
  Qed.

  Lemma fold_gopath_keys l k : forall st, In k (map fst (remote_gopaths st)) ->
    In k (map fst (remote_gopaths (fold_left (find_roots_step fs lgoroot lgopaths) l st))).
  Proof.
    induction l as [|f l IH]; intros st H; cbn [fold_left]; [exact H|]. apply IH, step_gopath_keys, H.
  Qed.

  Lemma fold_gomod_keys l k : forall st, In k (map fst (local_gomods st)) ->
    In k (map fst (local_gomods (fold_left (find_roots_step fs lgoroot lgopaths) l st))).
  Proof.
    induction l as [|f l IH]; intros st H; cbn [fold_left]; [exact H|]. apply IH, step_gomod_keys, H.
  Qed.
End Complete.

(* ====================================================================== *)
(* 5. from the root tables to the calls of guess_paths                      *)
(* ====================================================================== *)

Lemma has_src_prefix_in_spec f keys : has_src_prefix_in f keys = true ->
  exists k, In k keys /\ (is_prefix (k ++ s2b "/src/") f \/ is_prefix (k ++ s2b "/pkg/mod/") f).
Proof.
  unfold has_src_prefix_in. rewrite existsb_exists. intros (k & Hk & H). exists k. split; [exact Hk|].
  apply orb_true_iff in H as [H|H]; apply andb_true_iff in H as [_ H]; apply has_prefix_iff in H; [left|right]; exact H.
Qed.

Lemma has_prefix_in_spec f keys : has_prefix_in f keys = true ->
  exists k, In k keys /\ is_prefix (k ++ s2b "/") f.
Proof.
  unfold has_prefix_in. rewrite existsb_exists. intros (k & Hk & H). exists k. split; [exact Hk|].
  apply andb_true_iff in H as [_ H]. apply has_prefix_iff in H. exact H.
Qed.

Lemma in_keys_value (m : list (bytes * bytes)) k : In k (map fst m) -> exists v, In (k, v) m.
Proof. intros H. apply in_map_iff in H as ([k' v] & E & H). simpl in E. subst k'. exists v. exact H. Qed.

(* the call c' is the call c rebased: the three paths, the import path and the class *)
Definition rebased (c c' : Call) (local rel imp : bytes) (loc : Location) : Prop :=
  LocalSrcPath c' = local /\ RelSrcPath c' = rel /\ CImportPath c' = imp /\
  CLocation c' = classify c loc /\ same_core c c'.

(* position by position, in the stack and in the creator stack of every goroutine *)
Definition calls_related (P : Call -> Call -> Prop) (gs gs' : list Goroutine) : Prop :=
  Forall2 (fun g g' =>
    Forall2 P (Calls (SStack (GSig g))) (Calls (SStack (GSig g'))) /\
    Forall2 P (Calls (CreatedBy (GSig g))) (Calls (CreatedBy (GSig g')))) gs gs'.

Lemma Forall2_map_r {A B} (R : A -> B -> Prop) (f : A -> B) l : (forall x, R x (f x)) -> Forall2 R l (map f l).
Proof. intros H. induction l as [|x l IH]; cbn [map]; constructor; [apply H|exact IH]. Qed.

Theorem guess_related (P : Call -> Call -> Prop) fs lgoroot lgopaths gs :
  (forall c, let r := fst (guess_paths fs lgoroot lgopaths gs) in
     P c (update_call (remote_goroot r) lgoroot (remote_gopaths r) (local_gomods r) c)) ->
  calls_related P gs (snd (guess_paths fs lgoroot lgopaths gs)).
Proof.
  intros H. unfold guess_paths in *. cbn [fst snd] in *. apply Forall2_map_r. intros g.
  unfold update_goroutine. cbn. split; apply Forall2_map_r; exact H.
Qed.

(* reading calls_related from the output side *)
Definition all_calls (g : Goroutine) : list Call := Calls (SStack (GSig g)) ++ Calls (CreatedBy (GSig g)).

Lemma Forall2_in_r {A B} (R : A -> B -> Prop) l l' y : Forall2 R l l' -> In y l' -> exists x, In x l /\ R x y.
Proof.
  intros H. induction H as [|x y0 l l' Hxy _ IH]; intros Hy; [contradiction|].
  destruct Hy as [<-|Hy]; [exists x; split; [left; reflexivity|exact Hxy]|].
  destruct (IH Hy) as (x' & Hx' & Hr). exists x'. split; [right; exact Hx'|exact Hr].
Qed.

Theorem calls_related_out P gs gs' g' c' :
  calls_related P gs gs' -> In g' gs' -> In c' (all_calls g') ->
  exists g c, In g gs /\ In c (all_calls g) /\ P c c'.
Proof.
  intros H Hg Hc. destruct (Forall2_in_r _ _ _ _ H Hg) as (g & Hg0 & H1 & H2).
  unfold all_calls in *. apply in_app_or in Hc as [Hc|Hc].
  - destruct (Forall2_in_r _ _ _ _ H1 Hc) as (c & Hc0 & Hp). exists g, c.
    split; [exact Hg0|]. split; [apply in_or_app; left; exact Hc0|exact Hp].
  - destruct (Forall2_in_r _ _ _ _ H2 Hc) as (c & Hc0 & Hp). exists g, c.
    split; [exact Hg0|]. split; [apply in_or_app; right; exact Hc0|exact Hp].
Qed.

Lemma app_inv_sep (a b r1 r2 : bytes) : a ++ r1 = a ++ r2 -> r1 = r2.
Proof. apply app_inv_head. Qed.

(* GOROOT table entry -> Stdlib *)
Lemma goroot_call R lgoroot gopaths gomods c rel :
  R <> [] -> RemoteSrcPath c = R ++ s2b "/src/" ++ rel ->
  rebased c (update_call R lgoroot gopaths gomods c) (lgoroot ++ s2b "/src/" ++ rel) rel (dir_import c rel) Stdlib.
Proof.
  intros HR Hf.
  assert (Hmiss : ~ goroot_miss R (RemoteSrcPath c)).
  { intros [H|H]; [contradiction|apply (H rel Hf)]. }
  destruct (update_shape R lgoroot gopaths gomods c)
    as [H [He|(Hm & _)]|rel' Hne Hr HL HR' HI HC HS|prefix dest rel' _ Hm _ _ _ _ _ _ _ _
        |prefix dest rel' _ Hm _ _ _ _ _ _ _ _|prefix pkg rel' _ Hm _ _ _ _ _ _ _ _ _];
    try (exfalso; apply (Hmiss Hm)).
  - exfalso. rewrite He in Hf. destruct R; [contradiction|discriminate Hf].
  - rewrite Hf in Hr. apply app_inv_head in Hr. apply app_inv_head in Hr. subst rel'.
    split; [exact HL|]. split; [exact HR'|]. split; [exact HI|]. split; [exact HC|exact HS].
Qed.

(* ====================================================================== *)
(* 6. GOROOT                                                                *)
(* ====================================================================== *)

Section Goroot.
  Variable fs : fsys.               (* the disk oracle *)
  Variable lgoroot : bytes.         (* the local GOROOT *)
  Variable lgopaths : list bytes.   (* the local GOPATH entries *)
  Variable files : list bytes.      (* the source files named by the dump *)
  Hypothesis Hclean : forall g, In g files -> clean_path g = true.

  Notation step := (find_roots_step fs lgoroot lgopaths).
  Notation sound := (sound fs lgoroot lgopaths files).

  (* every cut of every dump file whose tail exists under the local GOROOT/src is a cut after R/src *)
  Definition goroot_unambiguous (R : bytes) : Prop :=
    forall g X tail, In g files -> hit fs (lgoroot ++ s2b "/src") g X tail -> X = R ++ s2b "/src".
  (* no remote GOPATH that the walk may record is a prefix (with /src/ or /pkg/mod/) of f *)
  Definition not_gopath_captured (f : bytes) : Prop :=
    forall P l, gopath_cand fs lgopaths files P l ->
      ~ is_prefix (P ++ s2b "/src/") f /\ ~ is_prefix (P ++ s2b "/pkg/mod/") f.
  (* no module root that the walk may record (a go.mod directory above, or the directory of, a dump
     file g which the GOPATH probes do not locate [and the GOROOT probe neither, when std]) is above f *)
  Definition not_module_captured (std : bool) (f : bytes) : Prop :=
    forall g K, In g files -> ~ gopath_found fs lgopaths g ->
      (std = true -> ~ goroot_found fs lgoroot g) ->
      ((exists m, module_dir fs K m) /\ under K g) \/ (K = path_dir g /\ is_file fs g = true) ->
      ~ under K f.

  Section One.
    Variables R f rel : bytes.
    Hypothesis HR : R <> [].
    Hypothesis Hf : In f files.
    Hypothesis Ef : f = R ++ s2b "/src/" ++ rel.
    Hypothesis Hfile : is_file fs (lgoroot ++ s2b "/src/" ++ rel) = true.
    Hypothesis Hun : goroot_unambiguous R.
    Hypothesis Hgp : not_gopath_captured f.
    Hypothesis Hmod : not_module_captured true f.

    Lemma goroot_hit_f : hit fs (lgoroot ++ s2b "/src") f (R ++ s2b "/src") rel.
    Proof.
      split; [destruct R; [contradiction|discriminate]|]. rewrite !src_assoc. split; [exact Ef|exact Hfile].
    Qed.

    Lemma goroot_probe_f : 
      strip_suffix_root (is_rooted_in fs (lgoroot ++ s2b "/src") (split_path f)) (s2b "/src") = Some R.
    Proof.
      rewrite (rooted_unique fs (lgoroot ++ s2b "/src") f (R ++ s2b "/src") rel (Hclean f Hf) goroot_hit_f).
      - apply strip_suffix_root_app.
      - intros X' tail' Hh. apply (Hun f X' tail' Hf Hh).
    Qed.

    Lemma goroot_probe_only g r : In g files ->
      strip_suffix_root (is_rooted_in fs (lgoroot ++ s2b "/src") (split_path g)) (s2b "/src") = Some r -> r = R.
    Proof.
      intros Hg H. destruct (strip_some_hit fs lgoroot (s2b "/src") g r (Hclean g Hg)) as [tail Hh];
        [discriminate|exact H|].
      apply (app_inv_tail (s2b "/src")). apply (Hun g _ tail Hg Hh).
    Qed.

    Definition goroot_ok (st : roots) : Prop := remote_goroot st = [] \/ remote_goroot st = R.

    Lemma step_goroot_ok st g : In g files -> goroot_ok st -> goroot_ok (step st g).
    Proof.
      intros Hg Hok. destruct (step_cases fs lgoroot lgopaths st g); try exact Hok.
      right. cbn [remote_goroot]. apply (goroot_probe_only g r Hg). assumption.
    Qed.

    Lemma fold_goroot_ok l : forall st, (forall g, In g l -> In g files) -> goroot_ok st ->
      goroot_ok (fold_left step l st).
    Proof.
      induction l as [|g l IH]; intros st Hin Hok; cbn [fold_left]; [exact Hok|].
      apply IH; [intros x Hx; apply Hin; right; exact Hx|].
      apply step_goroot_ok; [apply Hin; left; reflexivity|exact Hok].
    Qed.

    Lemma step_goroot_f st : sound st -> remote_goroot st = [] -> remote_goroot (step st f) = R.
    Proof.
      intros [S1 S2 S3] Hg0.
      assert (Hnone : goroot_probe fs lgoroot st f = None -> False).
      { unfold goroot_probe. rewrite Hg0, goroot_probe_f. discriminate. }
      destruct (step_cases fs lgoroot lgopaths st f)
        as [Hg Hp|Hp|Hp Hd|r Hg Hs|r l Hp Hg Ht|cache' root path Hg Ht Hw|cache' Hg Ht Hw Hu
            |cache' Hg Ht Hw Hu Hfile'|cache' Hg Ht Hw Hu Hfile'];
        try (exfalso; apply (Hnone Hg)).
      - contradiction.
      - exfalso. apply has_src_prefix_in_spec in Hp as (k & Hk & Hpre).
        apply in_keys_value in Hk as [l Hk]. destruct (Hgp k l (S2 k l Hk)) as [N1 N2].
        destruct Hpre as [Hpre|Hpre]; [apply (N1 Hpre)|apply (N2 Hpre)].
      - exfalso. apply has_prefix_in_spec in Hp as (K & HK & Hpre).
        apply in_keys_value in HK as [v HK]. destruct (S3 K v HK) as (g & G1 & G2 & G3 & G4).
        apply (Hmod g K G1 G2 (fun _ => G3 Hg0)); [|exact Hpre].
        destruct G4 as [[M U]|(_ & E & F)]; [left; split; [exists v; exact M|exact U]|right; split; assumption].
      - cbn [remote_goroot]. rewrite goroot_probe_f in Hs. injection Hs as <-. reflexivity.
    Qed.

    Theorem goroot_final :
      remote_goroot (fold_left step files (mkRoots [] [] [] [] 0)) = R.
    Proof.
      destruct (in_split f files Hf) as (l1 & l2 & E).
      assert (H1 : forall g, In g l1 -> In g files) by (intros g Hg; rewrite E; apply in_or_app; left; exact Hg).
      rewrite E, fold_left_app. cbn [fold_left].
      set (st1 := fold_left step l1 (mkRoots [] [] [] [] 0)).
      assert (Hs1 : sound st1) by (apply fold_sound; [exact Hclean|apply sound_init|exact H1]).
      assert (Hok1 : goroot_ok st1) by (apply fold_goroot_ok; [exact H1|left; reflexivity]).
      assert (H2 : remote_goroot (step st1 f) = R).
      { destruct Hok1 as [H0|H0]; [apply step_goroot_f; assumption|].
        rewrite step_goroot_mono; [exact H0|rewrite H0; exact HR]. }
      rewrite fold_goroot_mono; [exact H2|rewrite H2; exact HR].
    Qed.
  End One.
End Goroot.

Theorem complete_goroot fs lgoroot lgopaths gs R f rel :
  (forall g, In g (get_files gs) -> clean_path g = true) ->
  R <> [] -> In f (get_files gs) -> f = R ++ s2b "/src/" ++ rel ->
  is_file fs (lgoroot ++ s2b "/src/" ++ rel) = true ->
  goroot_unambiguous fs lgoroot (get_files gs) R ->
  not_gopath_captured fs lgopaths (get_files gs) f ->
  not_module_captured fs lgoroot lgopaths (get_files gs) true f ->
  remote_goroot (fst (guess_paths fs lgoroot lgopaths gs)) = R /\
  calls_related (fun c c' => RemoteSrcPath c = f ->
                   rebased c c' (lgoroot ++ s2b "/src/" ++ rel) rel (dir_import c rel) Stdlib)
                gs (snd (guess_paths fs lgoroot lgopaths gs)).
Proof.
  intros Hclean HR Hf Ef Hfile Hun Hgp Hmod.
  assert (HG : remote_goroot (fst (guess_paths fs lgoroot lgopaths gs)) = R).
  { unfold guess_paths, find_roots. cbn [fst].
    apply (goroot_final fs lgoroot lgopaths (get_files gs) Hclean R f rel); assumption. }
  split; [exact HG|]. apply guess_related. intros c r Hc. unfold r. rewrite HG.
  apply goroot_call; [exact HR|rewrite Hc; exact Ef].
Qed.

(* ====================================================================== *)
(* 7. GOPATH: src/ (class GOPATH) and pkg/mod/ (class GoPkg)                *)
(* ====================================================================== *)

Definition sfx_of (pk : bool) : bytes := if pk then s2b "/pkg/mod" else s2b "/src".
Definition mid_of (pk : bool) : bytes := if pk then s2b "/pkg/mod/" else s2b "/src/".
Definition loc_of (pk : bool) : Location := if pk then GoPkg else GOPATH.

Lemma sfx_assoc pk (l t : bytes) : (l ++ sfx_of pk) ++ b_slash :: t = l ++ mid_of pk ++ t.
Proof. destruct pk; [apply mod_assoc|apply src_assoc]. Qed.

Lemma has_suffix_app (x s : bytes) : has_suffix (x ++ s) s = true.
Proof.
  unfold has_suffix. rewrite app_length.
  replace (List.length x + List.length s - List.length s) with (List.length x) by lia.
  rewrite skipn_app, skipn_all, Nat.sub_diag. cbn [skipn app]. rewrite beq_refl.
  replace (Nat.leb (List.length s) (List.length x + List.length s)) with true by (symmetry; apply Nat.leb_le; lia).
  reflexivity.
Qed.

Lemma mid_clash (a r1 r2 : bytes) : a ++ s2b "/src/" ++ r1 = a ++ s2b "/pkg/mod/" ++ r2 -> False.
Proof. intros H. apply app_inv_head in H. discriminate H. Qed.

(* a GOPATH table entry -> GOPATH / GoPkg, when it is the only entry that matches *)
Lemma gopath_call pk G lgoroot gopaths gomods c P l rel :
  goroot_miss G (RemoteSrcPath c) ->
  In (P, l) gopaths ->
  (forall P' l', In (P', l') gopaths ->
     is_prefix (P' ++ s2b "/src/") (RemoteSrcPath c) \/ is_prefix (P' ++ s2b "/pkg/mod/") (RemoteSrcPath c) ->
     P' = P /\ l' = l) ->
  RemoteSrcPath c = P ++ mid_of pk ++ rel ->
  rebased c (update_call G lgoroot gopaths gomods c) (l ++ mid_of pk ++ rel) rel (dir_import c rel) (loc_of pk).
Proof.
  intros Hg Hin Huniq Hf.
  assert (Hhit : ~ gopaths_miss gopaths (RemoteSrcPath c)).
  { intros Hm. destruct (Hm P l Hin) as [M1 M2]. destruct pk; [apply (M2 rel Hf)|apply (M1 rel Hf)]. }
  destruct (update_shape G lgoroot gopaths gomods c)
    as [H [He|(_ & Hm & _)]|rel' Hne Hr _ _ _ _ _|prefix dest rel' _ _ Hin' _ Hr HL HR' HI HC HS
        |prefix dest rel' _ _ Hin' _ Hr HL HR' HI HC HS|prefix pkg rel' _ _ Hm _ _ _ _ _ _ _ _].
  - exfalso. rewrite He in Hf. destruct P; destruct pk; discriminate Hf.
  - exfalso. apply (Hhit Hm).
  - exfalso. destruct Hg as [Hg|Hg]; [contradiction|apply (Hg rel' Hr)].
  - destruct (Huniq prefix dest Hin') as [-> ->]; [left; exists rel'; rewrite <- app_assoc; exact Hr|].
    rewrite Hf in Hr. destruct pk; cbn [mid_of loc_of] in *.
    + exfalso. symmetry in Hr. apply (mid_clash _ _ _ Hr).
    + apply app_inv_head in Hr. apply app_inv_head in Hr. subst rel'.
      split; [exact HL|]. split; [exact HR'|]. split; [exact HI|]. split; [exact HC|exact HS].
  - destruct (Huniq prefix dest Hin') as [-> ->]; [right; exists rel'; rewrite <- app_assoc; exact Hr|].
    rewrite Hf in Hr. destruct pk; cbn [mid_of loc_of] in *.
    + apply app_inv_head in Hr. apply app_inv_head in Hr. subst rel'.
      split; [exact HL|]. split; [exact HR'|]. split; [exact HI|]. split; [exact HC|exact HS].
    + exfalso. apply (mid_clash _ _ _ Hr).
  - exfalso. apply (Hhit Hm).
Qed.

Section Gopath.
  Variable fs : fsys.               (* the disk oracle *)
  Variable lgoroot : bytes.         (* the local GOROOT *)
  Variable lgopaths : list bytes.   (* the local GOPATH entries *)
  Variable files : list bytes.      (* the source files named by the dump *)
  Hypothesis Hclean : forall g, In g files -> clean_path g = true.

  Notation step := (find_roots_step fs lgoroot lgopaths).
  Notation sound := (sound fs lgoroot lgopaths files).

  (* no remote GOROOT that the walk may record is a prefix (with /src/) of f *)
  Definition not_goroot_captured (f : bytes) : Prop :=
    forall G, goroot_cand fs lgoroot files G -> ~ is_prefix (G ++ s2b "/src/") f.
  (* the only remote GOPATH the walk may record that is a prefix of f is P, and it is mapped to l *)
  Definition gopath_unique (f P l : bytes) : Prop :=
    forall P' l', gopath_cand fs lgopaths files P' l' ->
      is_prefix (P' ++ s2b "/src/") f \/ is_prefix (P' ++ s2b "/pkg/mod/") f -> P' = P /\ l' = l.

  Lemma try_gopaths_self g ls r l :
    In g files -> try_gopaths fs (split_path g) ls = Some (r, l) ->
    In l ls /\ exists mid tail, (mid = s2b "/src/" \/ mid = s2b "/pkg/mod/") /\
      g = r ++ mid ++ tail /\ is_file fs (l ++ mid ++ tail) = true.
  Proof.
    intros Hg. induction ls as [|l0 ls IH]; cbn [try_gopaths]; intros H; [discriminate H|].
    destruct (strip_suffix_root (is_rooted_in fs (l0 ++ s2b "/src") (split_path g)) (s2b "/src")) as [x|] eqn:E1.
    { injection H as <- <-.
      destruct (strip_some_hit fs l0 (s2b "/src") g x (Hclean g Hg)) as [tail (_ & E & Hf)]; [discriminate|exact E1|].
      split; [left; reflexivity|]. exists (s2b "/src/"), tail. split; [left; reflexivity|].
      rewrite src_assoc in E, Hf. split; assumption. }
    destruct (strip_suffix_root (is_rooted_in fs (l0 ++ s2b "/pkg/mod") (split_path g)) (s2b "/pkg/mod")) as [x|] eqn:E2.
    { injection H as <- <-.
      destruct (strip_some_hit fs l0 (s2b "/pkg/mod") g x (Hclean g Hg)) as [tail (_ & E & Hf)]; [discriminate|exact E2|].
      split; [left; reflexivity|]. exists (s2b "/pkg/mod/"), tail. split; [right; reflexivity|].
      rewrite mod_assoc in E, Hf. split; assumption. }
    destruct (IH H) as [Hl Hr]. split; [right; exact Hl|exact Hr].
  Qed.

  Section One.
    Variable pk : bool.
    Variables P l f rel : bytes.
    Hypothesis Hf : In f files.
    Hypothesis Ef : f = P ++ mid_of pk ++ rel.
    Hypothesis Hl : In l lgopaths.
    Hypothesis Hfile : is_file fs (l ++ mid_of pk ++ rel) = true.
    Hypothesis Hgr : not_goroot_captured f.
    Hypothesis Huniq : gopath_unique f P l.
    (* every cut of f whose tail exists under l/src (resp. l/pkg/mod) is the cut after P/src (resp. P/pkg/mod) *)
    Hypothesis Halign : forall X tail, hit fs (l ++ sfx_of pk) f X tail -> X = P ++ sfx_of pk.
    Hypothesis Hmod : not_module_captured fs lgoroot lgopaths files false f.

    Lemma gopath_prefix_f : is_prefix (P ++ s2b "/src/") f \/ is_prefix (P ++ s2b "/pkg/mod/") f.
    Proof. destruct pk; [right|left]; exists rel; rewrite <- app_assoc; exact Ef. Qed.

    Lemma gopath_found_f : gopath_found fs lgopaths f.
    Proof.
      exists l. split; [exact Hl|].
      assert (Hh : hit fs (l ++ sfx_of pk) f (P ++ sfx_of pk) rel).
      { split; [destruct P; destruct pk; discriminate|]. rewrite !sfx_assoc. split; [exact Ef|exact Hfile]. }
      assert (F : found_in fs l (sfx_of pk) f).
      { split; [exists (P ++ sfx_of pk), rel; exact Hh|].
        intros X tail Hx. rewrite (Halign X tail Hx). apply has_suffix_app. }
      destruct pk; [right|left]; exact F.
    Qed.

    Lemma step_gopath_f st : sound st -> In P (map fst (remote_gopaths (step st f))).
    Proof.
      intros [S1 S2 S3].
      assert (Hnone : try_gopaths fs (split_path f) lgopaths = None -> False).
      { intros Ht. apply (try_gopaths_none_notfound fs lgopaths f (Hclean f Hf) Ht). apply gopath_found_f. }
      destruct (step_cases fs lgoroot lgopaths st f)
        as [Hg Hp|Hp|Hp Hd|r Hg Hs|r l' Hp Hg Ht|cache' root path Hg Ht Hw|cache' Hg Ht Hw Hu
            |cache' Hg Ht Hw Hu Hfile'|cache' Hg Ht Hw Hu Hfile'];
        try (exfalso; apply (Hnone Ht)).
      - exfalso. apply (Hgr _ (S1 Hg)). apply has_prefix_iff. exact Hp.
      - apply has_src_prefix_in_spec in Hp as (k & Hk & Hpre).
        destruct (in_keys_value _ _ Hk) as [l' Hk'].
        destruct (Huniq k l' (S2 k l' Hk') Hpre) as [-> _]. exact Hk.
      - exfalso. apply has_prefix_in_spec in Hp as (K & HK & Hpre).
        apply in_keys_value in HK as [v HK]. destruct (S3 K v HK) as (g & G1 & G2 & G3 & G4).
        apply (Hmod g K G1 G2); [discriminate| |exact Hpre].
        destruct G4 as [[M U]|(_ & E & F)]; [left; split; [exists v; exact M|exact U]|right; split; assumption].
      - exfalso. apply (Hgr r (goroot_probe_cand fs lgoroot files Hclean f r Hf Hs)).
        destruct (strip_some_hit fs lgoroot (s2b "/src") f r (Hclean f Hf)) as [tail (_ & E & _)];
          [discriminate|exact Hs|].
        exists tail. rewrite src_assoc in E. rewrite <- app_assoc. exact E.
      - cbn [remote_gopaths]. apply map_set_keys. left.
        destruct (try_gopaths_self f lgopaths r l' Hf Ht) as [Hl' (mid & tail & Hmid & E & Hfl)].
        assert (Hc : gopath_cand fs lgopaths files r l').
        { exists f, mid, tail. split; [exact Hf|]. split; [exact Hl'|]. split; [exact Hmid|]. split; assumption. }
        symmetry. apply (Huniq r l' Hc).
        destruct Hmid as [-> | ->]; [left|right]; exists tail; rewrite <- app_assoc; exact E.
    Qed.

    Theorem gopath_final :
      let st := fold_left step files (mkRoots [] [] [] [] 0) in
      In (P, l) (remote_gopaths st) /\ sound st.
    Proof.
      intros st.
      assert (Hs : sound st) by (apply fold_sound; [exact Hclean|apply sound_init|intros g Hg; exact Hg]).
      split; [|exact Hs].
      destruct (in_split f files Hf) as (l1 & l2 & E).
      assert (H1 : forall g, In g l1 -> In g files) by (intros g Hg; rewrite E; apply in_or_app; left; exact Hg).
      assert (Hk : In P (map fst (remote_gopaths st))).
      { unfold st. rewrite E, fold_left_app. cbn [fold_left]. apply fold_gopath_keys.
        apply step_gopath_f. apply fold_sound; [exact Hclean|apply sound_init|exact H1]. }
      apply in_keys_value in Hk as [l' Hk].
      destruct Hs as [_ S2 _]. destruct (Huniq P l' (S2 P l' Hk) gopath_prefix_f) as [_ ->]. exact Hk.
    Qed.
  End One.
End Gopath.

Theorem complete_gopath_gen pk fs lgoroot lgopaths gs P l f rel :
  (forall g, In g (get_files gs) -> clean_path g = true) ->
  In f (get_files gs) -> f = P ++ mid_of pk ++ rel -> In l lgopaths ->
  is_file fs (l ++ mid_of pk ++ rel) = true ->
  not_goroot_captured fs lgoroot (get_files gs) f ->
  gopath_unique fs lgopaths (get_files gs) f P l ->
  (forall X tail, hit fs (l ++ sfx_of pk) f X tail -> X = P ++ sfx_of pk) ->
  not_module_captured fs lgoroot lgopaths (get_files gs) false f ->
  In (P, l) (remote_gopaths (fst (guess_paths fs lgoroot lgopaths gs))) /\
  calls_related (fun c c' => RemoteSrcPath c = f ->
                   rebased c c' (l ++ mid_of pk ++ rel) rel (dir_import c rel) (loc_of pk))
                gs (snd (guess_paths fs lgoroot lgopaths gs)).
Proof.
  intros Hclean Hf Ef Hl Hfile Hgr Huniq Halign Hmod.
  destruct (gopath_final fs lgoroot lgopaths (get_files gs) Hclean pk P l f rel Hf Ef Hl Hfile Hgr Huniq Halign Hmod)
    as [Hin [S1 S2 _]].
  split; [exact Hin|]. apply guess_related. intros c r Hc. unfold r, guess_paths, find_roots. cbn [fst].
  apply (gopath_call pk _ lgoroot _ _ c P l rel).
  - set (G := remote_goroot (fold_left (find_roots_step fs lgoroot lgopaths) (get_files gs) (mkRoots [] [] [] [] 0))) in *.
    assert (D : G = [] \/ G <> []) by (destruct G; [left; reflexivity|right; discriminate]).
    destruct D as [D|D]; [left; exact D|right].
    intros rel' Hr. apply (Hgr G (S1 D)). exists rel'. rewrite <- app_assoc, <- Hc. exact Hr.
  - exact Hin.
  - intros P' l' Hin' Hpre. rewrite Hc in Hpre. apply (Huniq P' l' (S2 P' l' Hin') Hpre).
  - rewrite Hc. exact Ef.
Qed.

Definition complete_gopath := complete_gopath_gen false.
Definition complete_gopkg := complete_gopath_gen true.

(* ====================================================================== *)
(* 8. a file under none of the possible roots stays as it was               *)
(* ====================================================================== *)

(* no directory above f holds a go.mod with a module directive, or is the directory of a dump file
   that exists locally *)
Definition not_module_rooted (fs : fsys) (files : list bytes) (f : bytes) : Prop :=
  forall K, under K f ->
    (forall m, ~ module_dir fs K m) /\
    (forall g, In g files -> is_file fs g = true -> K <> path_dir g).

Lemma final_sound fs lgoroot lgopaths gs :
  (forall g, In g (get_files gs) -> clean_path g = true) ->
  sound fs lgoroot lgopaths (get_files gs) (fst (guess_paths fs lgoroot lgopaths gs)).
Proof.
  intros Hclean. unfold guess_paths, find_roots. cbn [fst].
  apply fold_sound; [exact Hclean|apply sound_init|intros g Hg; exact Hg].
Qed.

Lemma sound_goroot_miss fs lgoroot lgopaths files st f :
  sound fs lgoroot lgopaths files st -> not_goroot_captured fs lgoroot files f ->
  goroot_miss (remote_goroot st) f.
Proof.
  intros [S1 _ _] Hgr.
  assert (D : remote_goroot st = [] \/ remote_goroot st <> [])
    by (destruct (remote_goroot st); [left; reflexivity|right; discriminate]).
  destruct D as [D|D]; [left; exact D|right].
  intros rel Hr. apply (Hgr _ (S1 D)). exists rel. rewrite <- app_assoc. exact Hr.
Qed.

Lemma sound_gopaths_miss fs lgoroot lgopaths files st f :
  sound fs lgoroot lgopaths files st -> not_gopath_captured fs lgopaths files f ->
  gopaths_miss (remote_gopaths st) f.
Proof.
  intros [_ S2 _] Hgp P l Hin. destruct (Hgp P l (S2 P l Hin)) as [N1 N2].
  split; intros rel Hr; [apply N1|apply N2]; exists rel; rewrite <- app_assoc; exact Hr.
Qed.

Theorem unresolved_unchanged fs lgoroot lgopaths gs f :
  (forall g, In g (get_files gs) -> clean_path g = true) ->
  not_goroot_captured fs lgoroot (get_files gs) f ->
  not_gopath_captured fs lgopaths (get_files gs) f ->
  not_module_rooted fs (get_files gs) f ->
  calls_related (fun c c' => RemoteSrcPath c = f -> c' = c) gs (snd (guess_paths fs lgoroot lgopaths gs)).
Proof.
  intros Hclean Hgr Hgp Hmr.
  pose proof (final_sound fs lgoroot lgopaths gs Hclean) as Hs.
  apply guess_related. intros c r Hc. unfold r.
  apply unmatched_unchanged; rewrite Hc.
  - apply (sound_goroot_miss _ _ _ _ _ _ Hs Hgr).
  - apply (sound_gopaths_miss _ _ _ _ _ _ Hs Hgp).
  - destruct Hs as [_ _ S3]. intros K v Hin rel Hr.
    assert (HU : under K f) by (exists rel; rewrite <- app_assoc; exact Hr).
    destruct (Hmr K HU) as [M1 M2].
    destruct (S3 K v Hin) as (g & G1 & _ & _ & [[M _]|(_ & E & F)]); [apply (M1 v M)|apply (M2 g G1 F E)].
Qed.

(* ====================================================================== *)
(* 9. directories above a clean path, as prefixes of its components         *)
(* ====================================================================== *)

(* the directory made of the first i components *)
Definition dir_at (parts : list bytes) (i : nat) : bytes := path_join (firstn i parts).

Lemma firstn_nonnil {A} (l : list A) i : 1 <= i -> l <> [] -> firstn i l <> [].
Proof. destruct i; [lia|]. destruct l; [intros _ H; contradiction|discriminate]. Qed.

Lemma skipn_nonnil {A} (l : list A) i : i < List.length l -> skipn i l <> [].
Proof.
  intros H E. pose proof (firstn_skipn i l) as F. rewrite E, app_nil_r in F.
  assert (L : List.length (firstn i l) = List.length l) by (rewrite F; reflexivity).
  rewrite firstn_length in L. lia.
Qed.

Lemma firstn_plus {A} i : forall k (l : list A), firstn (i + k) l = firstn i l ++ firstn k (skipn i l).
Proof.
  induction i as [|i IH]; intros k l; [reflexivity|].
  destruct l as [|x l]; [cbn; rewrite firstn_nil; reflexivity|]. cbn. rewrite IH. reflexivity.
Qed.

Lemma dir_at_split parts i j : 1 <= i -> i < j -> j <= List.length parts ->
  dir_at parts j = dir_at parts i ++ [b_slash] ++ path_join (firstn (j - i) (skipn i parts)).
Proof.
  intros H1 H2 H3. unfold dir_at.
  assert (E : firstn j parts = firstn i parts ++ firstn (j - i) (skipn i parts)).
  { replace j with (i + (j - i)) at 1 by lia. rewrite firstn_plus. reflexivity. }
  rewrite E. apply path_join_app.
  - apply firstn_nonnil; [exact H1|]. intros ->. simpl in H3. lia.
  - apply firstn_nonnil; [lia|]. apply skipn_nonnil. lia.
Qed.

Lemma dir_at_len_lt parts i j : 1 <= i -> i < j -> j <= List.length parts ->
  List.length (dir_at parts i) < List.length (dir_at parts j).
Proof.
  intros H1 H2 H3. rewrite (dir_at_split parts i j H1 H2 H3), !app_length. cbn [List.length]. lia.
Qed.

Lemma dir_at_len_le parts i j : 1 <= i -> i <= j -> j <= List.length parts ->
  List.length (dir_at parts i) <= List.length (dir_at parts j).
Proof.
  intros H1 H2 H3. destruct (Nat.eq_dec i j) as [->|N]; [lia|].
  pose proof (dir_at_len_lt parts i j H1 ltac:(lia) H3). lia.
Qed.

Lemma dir_at_inj parts i j : 1 <= i -> 1 <= j -> i <= List.length parts -> j <= List.length parts ->
  dir_at parts i = dir_at parts j -> i = j.
Proof.
  intros H1 H2 H3 H4 E.
  destruct (Nat.lt_trichotomy i j) as [L|[L|L]]; [|exact L|].
  - pose proof (dir_at_len_lt parts i j H1 L H4) as X. rewrite E in X. lia.
  - pose proof (dir_at_len_lt parts j i H2 L H3) as X. rewrite E in X. lia.
Qed.

Lemma dir_at_all f : clean_path f = true -> dir_at (split_path f) (List.length (split_path f)) = f.
Proof. intros Hc. unfold dir_at. rewrite firstn_all. apply split_path_join, Hc. Qed.

Lemma dir_at_nonnil f i : 1 <= i -> f <> [] -> clean_path f = true -> dir_at (split_path f) i <> [].
Proof.
  intros H1 Hne Hc. unfold dir_at. apply path_join_nonempty.
  - apply firstn_nonnil; [exact H1|apply split_path_clean_nonnil; assumption].
  - pose proof (split_path_nonempty f) as Hall. rewrite <- (firstn_skipn i (split_path f)) in Hall.
    apply Forall_app in Hall as [Hall _]. exact Hall.
Qed.

(* a directory of the path is strictly above the path *)
Lemma dir_at_under f i : clean_path f = true -> 1 <= i -> i < List.length (split_path f) ->
  is_prefix (dir_at (split_path f) i ++ s2b "/") f.
Proof.
  intros Hc H1 H2.
  exists (path_join (firstn (List.length (split_path f) - i) (skipn i (split_path f)))).
  rewrite <- (dir_at_all f Hc) at 1. rewrite <- app_assoc.
  apply (dir_at_split (split_path f) i _ H1 H2). lia.
Qed.

(* conversely, every non-empty K with K/ a prefix of f is one of them *)
Lemma under_dir_at f K : clean_path f = true -> K <> [] -> is_prefix (K ++ s2b "/") f ->
  exists s, 1 <= s /\ s < List.length (split_path f) /\ K = dir_at (split_path f) s.
Proof.
  intros Hc HK [rest E]. rewrite <- app_assoc in E. change (s2b "/" ++ rest) with (b_slash :: rest) in E.
  subst f. destruct (split_path_app K rest HK Hc) as (Es & HcK & Hcr & Hrne).
  exists (List.length (split_path K)).
  assert (LK : split_path K <> []) by (apply split_path_clean_nonnil; assumption).
  assert (Lr : split_path rest <> []) by (apply split_path_clean_nonnil; assumption).
  split; [destruct (split_path K); [contradiction|cbn; lia]|].
  split; [rewrite Es, app_length; destruct (split_path rest); [contradiction|cbn; lia]|].
  unfold dir_at. rewrite Es, firstn_app, firstn_all, Nat.sub_diag. cbn [firstn]. rewrite app_nil_r.
  symmetry. apply split_path_join, HcK.
Qed.

Lemma is_prefix_trans (a b c : bytes) : is_prefix a b -> is_prefix b c -> is_prefix a c.
Proof. intros [r1 ->] [r2 ->]. exists (r1 ++ r2). rewrite app_assoc. reflexivity. Qed.

Lemma is_prefix_len (a b : bytes) : is_prefix a b -> List.length a <= List.length b.
Proof. intros [r ->]. rewrite app_length. lia. Qed.

(* two prefixes of the same string are comparable *)
Lemma prefix_comparable (a b r1 r2 : bytes) : a ++ r1 = b ++ r2 -> List.length a <= List.length b -> is_prefix a b.
Proof.
  revert b. induction a as [|x a IH]; intros b E L; [exists b; reflexivity|].
  destruct b as [|y b]; [cbn in L; lia|].
  cbn in E. injection E as -> E. destruct (IH b E ltac:(cbn in L; lia)) as [r ->]. exists r. reflexivity.
Qed.

(* a path without '/' after its first byte has a single component *)
Lemma split_path_go_noslash p : forall out s, ~ In b_slash p ->
  split_path_go p out s = match s ++ p with [] => out | _ => out ++ [s ++ p] end.
Proof.
  induction p as [|c p IH]; intros out s Hn.
  - cbn [split_path_go]. rewrite app_nil_r. destruct s; reflexivity.
  - cbn [split_path_go].
    assert (Ec : N.eqb c b_slash = false).
    { apply N.eqb_neq. intros ->. apply Hn. left. reflexivity. }
    rewrite Ec. cbn [negb orb]. rewrite IH by (intros H; apply Hn; right; exact H).
    rewrite <- app_assoc. reflexivity.
Qed.

Lemma split_path_single base : base <> [] -> ~ In b_slash base -> split_path base = [base].
Proof.
  intros Hne Hn. unfold split_path. rewrite split_path_go_noslash by exact Hn.
  cbn [app]. destruct base; [contradiction|reflexivity].
Qed.

Lemma split_path_root_file base : ~ In b_slash base -> split_path (b_slash :: base) = [b_slash :: base].
Proof.
  intros Hn. unfold split_path. cbn [split_path_go forallb]. rewrite N.eqb_refl. cbn [negb orb app].
  rewrite split_path_go_noslash by exact Hn. reflexivity.
Qed.

(* path.Dir of a clean path with at least two components is the join of all but the last *)
Lemma path_dir_dir_at f : clean_path f = true -> 2 <= List.length (split_path f) ->
  path_dir f = dir_at (split_path f) (List.length (split_path f) - 1) /\
  is_prefix (path_dir f ++ s2b "/") f.
Proof.
  intros Hc H2. unfold path_dir.
  destruct (last_index_byte f b_slash) as [i|] eqn:E.
  - destruct (last_index_split f b_slash i E) as (base & Ef & Hb).
    destruct i as [|i].
    + exfalso. cbn [firstn app] in Ef. rewrite Ef, split_path_root_file in H2 by exact Hb. cbn in H2. lia.
    + set (D := firstn (S i) f) in *.
      assert (HD : D <> []).
      { unfold D. destruct f; [discriminate E|discriminate]. }
      assert (Hc' : clean_path (D ++ b_slash :: base) = true) by (rewrite <- Ef; exact Hc).
      destruct (split_path_app D base HD Hc') as (Es & HcD & Hcb & Hbne).
      split.
      * unfold dir_at. rewrite Ef at 1 2. rewrite Es, (split_path_single base Hbne Hb), app_length.
        cbn [List.length]. replace (List.length (split_path D) + 1 - 1) with (List.length (split_path D)) by lia.
        rewrite firstn_app, firstn_all, Nat.sub_diag. cbn [firstn]. rewrite app_nil_r.
        symmetry. apply split_path_join, HcD.
      * exists base. rewrite <- app_assoc. exact Ef.
  - exfalso. apply last_index_none in E.
    destruct f as [|c f]; [cbn in H2; lia|].
    rewrite split_path_single in H2; [cbn in H2; lia|discriminate|exact E].
Qed.

(* path.Dir g = K for a K that is neither "." nor "/": g is K, a '/', and a base name *)
Lemma path_dir_under g K : path_dir g = K -> K <> s2b "." -> K <> s2b "/" -> is_prefix (K ++ s2b "/") g.
Proof.
  unfold path_dir. intros E N1 N2.
  destruct (last_index_byte g b_slash) as [i|] eqn:El; [|symmetry in E; contradiction].
  destruct i as [|i]; [symmetry in E; contradiction|].
  destruct (last_index_split g b_slash (S i) El) as (base & Eg & _).
  exists base. rewrite <- E, <- app_assoc. exact Eg.
Qed.

(* ====================================================================== *)
(* 10. the upward search for a go.mod                                       *)
(* ====================================================================== *)

Fixpoint desc (n : nat) : list nat := match n with O => [] | S k => S k :: desc k end.

Lemma desc_le n i : In i (desc n) -> 1 <= i <= n.
Proof. induction n as [|n IH]; [intros []|]. intros [<-|H]; [lia|]. apply IH in H. lia. Qed.

Lemma prefixes_desc_go_eq {A} : forall n (l : list A), List.length l <= n ->
  (fix go (n : nat) (l : list A) : list (list A) :=
     match n with
     | O => []
     | S n' => match removelast l with [] => [] | a :: l0 => (a :: l0) :: go n' (a :: l0) end
     end) n l = map (fun i => firstn i l) (desc (List.length l - 1)).
Proof.
  induction n as [|n IH]; intros l Hl.
  - destruct l; [reflexivity|cbn in Hl; lia].
  - destruct l as [|x l]; [reflexivity|].
    rewrite removelast_firstn_len.
    destruct (firstn (Init.Nat.pred (List.length (x :: l))) (x :: l)) as [|a l0] eqn:E.
    + assert (L : List.length (firstn (Init.Nat.pred (List.length (x :: l))) (x :: l)) = 0) by (rewrite E; reflexivity).
      rewrite firstn_length in L. cbn [List.length] in L |- *.
      replace (S (List.length l) - 1) with 0 by lia. reflexivity.
    + assert (L : List.length (a :: l0) = List.length (x :: l) - 1).
      { rewrite <- E, firstn_length. cbn [List.length]. lia. }
      rewrite IH by (rewrite L; cbn [List.length] in *; lia).
      rewrite L. cbn [List.length] in *.
      replace (S (List.length l) - 1) with (S (List.length l0)) by lia.
      cbn [desc map]. f_equal.
      * rewrite <- E. f_equal. lia.
      * replace (S (List.length l0) - 1) with (List.length l0) by lia.
        apply map_ext_in. intros i Hi. apply desc_le in Hi.
        rewrite <- E, firstn_firstn. f_equal. lia.
Qed.

Lemma prefixes_desc_eq {A} (l : list A) :
  prefixes_desc l = map (fun i => firstn i l) (desc (List.length l)).
Proof.
  unfold prefixes_desc. destruct l as [|x l]; [reflexivity|].
  rewrite (prefixes_desc_go_eq (List.length (x :: l)) (x :: l) (le_n _)).
  cbn [List.length]. replace (S (List.length l) - 1) with (List.length l) by lia.
  cbn [desc map]. f_equal. cbn [firstn]. rewrite firstn_all. reflexivity.
Qed.

Section Walk.
  Variable fs : fsys.   (* the disk oracle *)

  Definition is_module (K : bytes) : Prop := exists m, module_dir fs K m.

  Lemma module_dir_fun K m m' : module_dir fs K m -> module_dir fs K m' -> m = m'.
  Proof.
    intros (c1 & L1 & F1) (c2 & L2 & F2). rewrite L1 in L2. injection L2 as <-. rewrite F1 in F2.
    injection F2 as <-. reflexivity.
  Qed.

  Lemma is_module_dec K : is_module K \/ ~ is_module K.
  Proof.
    unfold is_module, module_dir.
    destruct (fs_lookup fs (K ++ s2b "/go.mod")) as [content|] eqn:E.
    - destruct (find_module content) as [m|] eqn:F.
      + left. exists m, content. split; [reflexivity|exact F].
      + right. intros (m & c & L & F'). injection L as <-. rewrite F in F'. discriminate F'.
    - right. intros (m & c & L & _). discriminate L.
  Qed.

  Variable parts : list bytes.
  Notation E := (dir_at parts).

  Lemma walk_spec : forall k cache cache' res,
    k < List.length parts ->
    is_go_module_go fs cache (map (fun i => firstn i parts) (desc k)) = (cache', res) ->
    exists t, 1 <= t <= k + 1 /\
      (forall D, In D cache' <-> In D cache \/ exists i, t <= i <= k /\ D = E i) /\
      match res with
      | Some (root, m) => t <= k /\ root = E t /\ module_dir fs (E t) m /\
                          (forall i, t < i <= k -> ~ is_module (E i))
      | None => (forall i, t <= i <= k -> ~ is_module (E i)) /\ (t = 1 \/ In (E (t - 1)) cache)
      end.
  Proof.
    induction k as [|k IH]; intros cache cache' res Hk H.
    - cbn in H. injection H as <- <-. exists 1. split; [lia|]. split.
      + intros D. split; [intros HD; left; exact HD|intros [HD|(i & Hi & _)]; [exact HD|lia]].
      + split; [intros i Hi; lia|left; reflexivity].
    - cbn [desc map is_go_module_go] in H. cbv zeta in H. fold (E (S k)) in H.
      destruct (existsb (beq (E (S k))) cache) eqn:Ec.
      { injection H as <- <-. exists (S k + 1). split; [lia|]. split.
        - intros D. split; [intros HD; left; exact HD|intros [HD|(i & Hi & _)]; [exact HD|lia]].
        - split; [intros i Hi; lia|right]. replace (S k + 1 - 1) with (S k) by lia.
          apply existsb_beq_in. exact Ec. }
      assert (Hnc : ~ In (E (S k)) cache).
      { intros HI. apply existsb_beq_in in HI. rewrite HI in Ec. discriminate Ec. }
      assert (Hstop : fs_lookup fs (path_join [E (S k); s2b "go.mod"]) = fs_lookup fs (E (S k) ++ s2b "/go.mod"))
        by reflexivity.
      rewrite Hstop in H.
      destruct (fs_lookup fs (E (S k) ++ s2b "/go.mod")) as [content|] eqn:EL.
      + destruct (find_module content) as [m|] eqn:EF.
        * injection H as <- <-. exists (S k). split; [lia|]. split.
          -- intros D. split.
             ++ intros [<-|HD]; [right; exists (S k); split; [lia|reflexivity]|left; exact HD].
             ++ intros [HD|(i & Hi & ->)]; [right; exact HD|left; f_equal; lia].
          -- split; [lia|]. split; [reflexivity|]. split; [exists content; split; assumption|].
             intros i Hi. lia.
        * destruct (IH (E (S k) :: cache) cache' res ltac:(lia) H) as (t & Ht & Hin & Hres).
          assert (Hnm : ~ is_module (E (S k))).
          { intros (m & c & L & F). rewrite EL in L. injection L as <-. rewrite EF in F. discriminate F. }
          exists t. split; [lia|]. split.
          -- intros D. rewrite Hin. split.
             ++ intros [[<-|HD]|(i & Hi & ->)].
                ** right. exists (S k). split; [lia|reflexivity].
                ** left. exact HD.
                ** right. exists i. split; [lia|reflexivity].
             ++ intros [HD|(i & Hi & ->)].
                ** left. right. exact HD.
                ** destruct (Nat.eq_dec i (S k)) as [->|N]; [left; left; reflexivity|].
                   right. exists i. split; [lia|reflexivity].
          -- destruct res as [[root m]|].
             ++ destruct Hres as (R1 & R2 & R3 & R4). split; [lia|]. split; [exact R2|]. split; [exact R3|].
                intros i Hi. destruct (Nat.eq_dec i (S k)) as [->|N]; [exact Hnm|apply R4; lia].
             ++ destruct Hres as (R1 & R2). split.
                ** intros i Hi. destruct (Nat.eq_dec i (S k)) as [->|N]; [exact Hnm|apply R1; lia].
                ** destruct R2 as [R2|[R2|R2]]; [left; exact R2| |right; exact R2].
                   destruct (Nat.eq_dec t 1) as [->|N1]; [left; reflexivity|].
                   exfalso. apply dir_at_inj in R2; lia.
      + destruct (IH (E (S k) :: cache) cache' res ltac:(lia) H) as (t & Ht & Hin & Hres).
        assert (Hnm : ~ is_module (E (S k))).
        { intros (m & c & L & F). rewrite EL in L. discriminate L. }
        exists t. split; [lia|]. split.
        -- intros D. rewrite Hin. split.
           ++ intros [[<-|HD]|(i & Hi & ->)].
              ** right. exists (S k). split; [lia|reflexivity].
              ** left. exact HD.
              ** right. exists i. split; [lia|reflexivity].
           ++ intros [HD|(i & Hi & ->)].
              ** left. right. exact HD.
              ** destruct (Nat.eq_dec i (S k)) as [->|N]; [left; left; reflexivity|].
                 right. exists i. split; [lia|reflexivity].
        -- destruct res as [[root m]|].
           ++ destruct Hres as (R1 & R2 & R3 & R4). split; [lia|]. split; [exact R2|]. split; [exact R3|].
              intros i Hi. destruct (Nat.eq_dec i (S k)) as [->|N]; [exact Hnm|apply R4; lia].
           ++ destruct Hres as (R1 & R2). split.
              ** intros i Hi. destruct (Nat.eq_dec i (S k)) as [->|N]; [exact Hnm|apply R1; lia].
              ** destruct R2 as [R2|[R2|R2]]; [left; exact R2| |right; exact R2].
                 destruct (Nat.eq_dec t 1) as [->|N1]; [left; reflexivity|].
                 exfalso. apply dir_at_inj in R2; lia.
  Qed.
End Walk.

Lemma has_prefix_in_intro f keys K :
  clean_path f = true -> In K keys -> is_prefix (K ++ s2b "/") f -> has_prefix_in f keys = true.
Proof.
  intros Hc HK [rest E]. unfold has_prefix_in. apply existsb_exists. exists K. split; [exact HK|].
  assert (Hr : rest <> []).
  { intros ->. rewrite app_nil_r in E. apply (proj2 (clean_path_spec f Hc) K). exact E. }
  apply andb_true_iff. split.
  - apply Nat.ltb_lt. rewrite E, !app_length. cbn [List.length s2b]. destruct rest; [contradiction|cbn; lia].
  - apply has_prefix_iff. exists rest. exact E.
Qed.

Lemma mod_walk_spec fs st f cache' res :
  clean_path f = true -> 2 <= List.length (split_path f) ->
  mod_walk fs st f = (cache', res) ->
  let parts := split_path f in let n := List.length parts - 1 in
  exists t, 1 <= t <= n + 1 /\
    (forall D, In D cache' <-> In D (gm_cache st) \/ exists i, t <= i <= n /\ D = dir_at parts i) /\
    match res with
    | Some (root, m) => t <= n /\ root = dir_at parts t /\ module_dir fs (dir_at parts t) m /\
                        (forall i, t < i <= n -> ~ is_module fs (dir_at parts i))
    | None => (forall i, t <= i <= n -> ~ is_module fs (dir_at parts i)) /\
              (t = 1 \/ In (dir_at parts (t - 1)) (gm_cache st))
    end.
Proof.
  intros Hc H2 H parts n. unfold mod_walk in H. fold parts in H, H2.
  replace (Nat.ltb 1 (List.length parts)) with true in H by (symmetry; apply Nat.ltb_lt; lia).
  rewrite prefixes_desc_eq in H.
  assert (Ln : List.length (removelast parts) = n).
  { rewrite removelast_firstn_len, firstn_length. unfold n. lia. }
  rewrite Ln in H.
  rewrite (map_ext_in _ (fun i => firstn i parts)) in H.
  - apply (walk_spec fs parts n (gm_cache st) cache' res); [unfold n; lia|exact H].
  - intros i Hi. apply desc_le in Hi. rewrite removelast_firstn_len, firstn_firstn. f_equal. unfold n in Hi. lia.
Qed.

Section Gomod.
  Variable fs : fsys.               (* the disk oracle *)
  Variable lgoroot : bytes.         (* the local GOROOT *)
  Variable lgopaths : list bytes.   (* the local GOPATH entries *)
  Variable files : list bytes.      (* the source files named by the dump *)
  Hypothesis Hclean : forall g, In g files -> clean_path g = true.

  Notation step := (find_roots_step fs lgoroot lgopaths).
  Notation sound := (sound fs lgoroot lgopaths files).

  (* K is the directory D or a directory above it *)
  Definition anc (K D : bytes) : Prop := K <> [] /\ (K = D \/ under K D).
  (* K is the deepest directory at or above D that holds a go.mod with a module directive *)
  Definition innermost (D K : bytes) : Prop :=
    anc K D /\ is_module fs K /\ forall K', anc K' D -> is_module fs K' -> List.length K' <= List.length K.

  Record modinv (st : roots) : Prop := mkModinv {
    mi_keys : forall K v, In (K, v) (local_gomods st) ->
      module_dir fs K v \/
      (v = s2b "main" /\ exists g, In g files /\ K = path_dir g /\
         forall K', K' <> [] -> under K' g -> ~ is_module fs K');
    mi_cache : forall D K, In D (gm_cache st) -> innermost D K -> In K (map fst (local_gomods st)) }.

  Lemma modinv_init : modinv (mkRoots [] [] [] [] 0).
  Proof. split; cbn; [intros K v []|intros D K []]. Qed.

  Section File.
    Variable f : bytes.
    Hypothesis Hc : clean_path f = true.
    Notation parts := (split_path f).
    Notation n := (List.length (split_path f) - 1).
    Notation E := (dir_at (split_path f)).
    Hypothesis H2 : 2 <= List.length (split_path f).

    Lemma E_under i : 1 <= i <= n -> under (E i) f.
    Proof. intros Hi. apply dir_at_under; [exact Hc|lia|lia]. Qed.

    Lemma anc_E K i : 1 <= i <= n -> anc K (E i) -> exists s, 1 <= s <= i /\ K = E s.
    Proof.
      intros Hi [HK [->|HU]]; [exists i; split; [lia|reflexivity]|].
      assert (HUf : under K f).
      { apply (is_prefix_trans _ (E i)); [exact HU|].
        destruct (E_under i Hi) as [r Er]. exists (s2b "/" ++ r). rewrite app_assoc. exact Er. }
      destruct (under_dir_at f K Hc HK HUf) as (s & S1 & S2 & ->).
      exists s. split; [|reflexivity]. split; [exact S1|].
      destruct (Nat.le_gt_cases s i) as [L|L]; [exact L|exfalso].
      pose proof (dir_at_len_lt parts i s ltac:(lia) L ltac:(lia)) as X.
      apply is_prefix_len in HU. rewrite app_length in HU. cbn [List.length s2b] in HU. cbn in HU. lia.
    Qed.

    Lemma E_anc s i : 1 <= s -> s <= i -> i <= n -> anc (E s) (E i).
    Proof.
      intros S1 S2 S3. split.
      - apply dir_at_nonnil; [exact S1| |exact Hc]. intros ->. cbn in H2. lia.
      - destruct (Nat.eq_dec s i) as [->|N]; [left; reflexivity|right].
        exists (path_join (firstn (i - s) (skipn s parts))). rewrite <- app_assoc.
        apply dir_at_split; lia.
    Qed.

    Lemma anc_under_f K i : 1 <= i <= n -> anc K (E i) -> under K f.
    Proof.
      intros Hi HA. destruct (anc_E K i Hi HA) as (s & Hs & ->). apply E_under. lia.
    Qed.

    (* among E 1 .. E u, a deepest module directory, if any *)
    Lemma deepest_module u : u <= n ->
      (exists s, 1 <= s <= u /\ is_module fs (E s)) ->
      exists s, 1 <= s <= u /\ is_module fs (E s) /\ forall s', s < s' <= u -> ~ is_module fs (E s').
    Proof.
      induction u as [|u IH]; intros Hu (s & Hs & Hm); [lia|].
      destruct (is_module_dec fs (E (S u))) as [M|M].
      - exists (S u). split; [lia|]. split; [exact M|]. intros s' Hs'. lia.
      - destruct (IH ltac:(lia)) as (s0 & Hs0 & Hm0 & Hmax).
        { exists s. split; [|exact Hm]. destruct (Nat.eq_dec s (S u)) as [->|N]; [contradiction|lia]. }
        exists s0. split; [lia|]. split; [exact Hm0|].
        intros s' Hs'. destruct (Nat.eq_dec s' (S u)) as [->|N]; [exact M|apply Hmax; lia].
    Qed.

    Lemma innermost_E u s : 1 <= s <= u -> u <= n -> is_module fs (E s) ->
      (forall s', s < s' <= u -> ~ is_module fs (E s')) -> innermost (E u) (E s).
    Proof.
      intros Hs Hu Hm Hmax. split; [apply E_anc; lia|]. split; [exact Hm|].
      intros K' HA HM. destruct (anc_E K' u ltac:(lia) HA) as (s' & Hs' & ->).
      destruct (Nat.le_gt_cases s' s) as [L|L]; [apply dir_at_len_le; lia|].
      exfalso. apply (Hmax s' ltac:(lia) HM).
    Qed.

    Variable st : roots.
    Variable cache' : list bytes.
    Variable res : option (bytes * bytes).
    Hypothesis Hw : mod_walk fs st f = (cache', res).
    Hypothesis Hinv : modinv st.

    (* the cache invariant after the walk, for any table that keeps the old keys and has the new one *)
    Lemma walk_cache_inv (keys' : list bytes) :
      (forall K, In K (map fst (local_gomods st)) -> In K keys') ->
      (forall root m, res = Some (root, m) -> In root keys') ->
      forall D K, In D cache' -> innermost D K -> In K keys'.
    Proof.
      intros Hold Hnew D K HD HI.
      destruct (mod_walk_spec fs st f cache' res Hc H2 Hw) as (t & Ht & Hin & Hres).
      apply Hin in HD as [HD|(i & Hi & ->)].
      { apply Hold. apply (mi_cache st Hinv D K HD HI). }
      destruct HI as (HA & HM & Hmax).
      destruct (anc_E K i ltac:(lia) HA) as (s & Hs & ->).
      destruct res as [[root m]|].
      - destruct Hres as (R1 & R2 & R3 & R4).
        assert (s = t).
        { destruct (Nat.lt_trichotomy s t) as [L|[L|L]]; [|exact L|].
          - exfalso. pose proof (Hmax (E t) (E_anc t i ltac:(lia) ltac:(lia) ltac:(lia)) (ex_intro _ m R3)) as X.
            pose proof (dir_at_len_lt parts s t ltac:(lia) L ltac:(lia)). lia.
          - exfalso. apply (R4 s ltac:(lia) HM). }
        subst s. rewrite <- R2. apply (Hnew root m). reflexivity.
      - destruct Hres as (R1 & R2).
        assert (Hst : s < t).
        { destruct (Nat.le_gt_cases t s) as [L|L]; [exfalso; apply (R1 s ltac:(lia) HM)|exact L]. }
        destruct R2 as [->|R2]; [lia|].
        apply Hold. apply (mi_cache st Hinv (E (t - 1)) (E s) R2).
        split; [apply E_anc; lia|]. split; [exact HM|].
        intros K' HA' HM'. apply Hmax; [|exact HM'].
        destruct (anc_E K' (t - 1) ltac:(lia) HA') as (s' & Hs' & ->). apply E_anc; lia.
    Qed.
  End File.
End Gomod.

Section Gomod2.
  Variable fs : fsys.               (* the disk oracle *)
  Variable lgoroot : bytes.         (* the local GOROOT *)
  Variable lgopaths : list bytes.   (* the local GOPATH entries *)
  Variable files : list bytes.      (* the source files named by the dump *)
  Hypothesis Hclean : forall g, In g files -> clean_path g = true.

  Notation step := (find_roots_step fs lgoroot lgopaths).
  Notation modinv := (modinv fs files).

  (* a fruitless walk for a file under no recorded module: no module directory above the file *)
  Lemma walk_none_no_module f st cache' :
    clean_path f = true -> 2 <= List.length (split_path f) ->
    mod_walk fs st f = (cache', None) -> modinv st ->
    has_prefix_in f (map fst (local_gomods st)) = false ->
    forall K', K' <> [] -> under K' f -> ~ is_module fs K'.
  Proof.
    intros Hc H2 Hw Hinv Hu K' HK HU HM.
    destruct (mod_walk_spec fs st f cache' None Hc H2 Hw) as (t & Ht & _ & R1 & R2).
    destruct (under_dir_at f K' Hc HK HU) as (s & S1 & S2 & ->).
    assert (Hst : s < t).
    { destruct (Nat.le_gt_cases t s) as [L|L]; [exfalso; apply (R1 s ltac:(lia) HM)|exact L]. }
    destruct R2 as [->|R2]; [lia|].
    destruct (deepest_module fs f H2 (t - 1) ltac:(lia)) as (s0 & Hs0 & Hm0 & Hmax).
    { exists s. split; [lia|exact HM]. }
    pose proof (innermost_E fs f Hc H2 (t - 1) s0 Hs0 ltac:(lia) Hm0 Hmax) as HI.
    pose proof (mi_cache fs files st Hinv _ _ R2 HI) as Hkey.
    rewrite (has_prefix_in_intro f _ _ Hc Hkey) in Hu; [discriminate Hu|].
    apply (E_under f Hc H2). lia.
  Qed.

  Lemma mod_walk_short f st cache' res :
    List.length (split_path f) <= 1 -> mod_walk fs st f = (cache', res) -> cache' = gm_cache st /\ res = None.
  Proof.
    intros H1 Hw. unfold mod_walk in Hw.
    replace (Nat.ltb 1 (List.length (split_path f))) with false in Hw by (symmetry; apply Nat.ltb_ge; lia).
    injection Hw as <- <-. split; reflexivity.
  Qed.

  Lemma step_modinv st f : modinv st -> In f files -> modinv (step st f).
  Proof.
    intros Hinv Hf. pose proof (Hclean f Hf) as Hc. pose proof Hinv as [I1 I2].
    destruct (step_cases fs lgoroot lgopaths st f)
      as [Hg Hp|Hp|Hp Hd|r Hg Hs|r l Hp Hg Ht|cache' root path Hg Ht Hw|cache' Hg Ht Hw Hu
          |cache' Hg Ht Hw Hu Hfile|cache' Hg Ht Hw Hu Hfile];
      try exact Hinv; try (split; assumption).
    - (* a module found by the walk *)
      destruct (Nat.le_gt_cases (List.length (split_path f)) 1) as [L|L].
      { destruct (mod_walk_short f st cache' _ L Hw) as [_ X]. discriminate X. }
      split; cbn [local_gomods gm_cache].
      + intros K v Hin. apply map_set_in in Hin as [[-> ->]|Hin]; [|apply (I1 K v Hin)].
        left. apply (mod_walk_some fs st f cache' root path Hc Hw).
      + apply (walk_cache_inv fs files f Hc L st cache' _ Hw Hinv).
        * intros K HK. apply map_set_keys. right. exact HK.
        * intros root' m' X. injection X as <- <-. apply map_set_keys. left. reflexivity.
    - destruct (Nat.le_gt_cases (List.length (split_path f)) 1) as [L|L].
      { destruct (mod_walk_short f st cache' _ L Hw) as [-> _]. split; assumption. }
      split; cbn [local_gomods gm_cache]; [exact I1|].
      apply (walk_cache_inv fs files f Hc L st cache' _ Hw Hinv); [intros K HK; exact HK|intros ? ? X; discriminate X].
    - (* the "package main" rule *)
      assert (Hkeys : forall K, In K (map fst (local_gomods st)) ->
                In K (map fst (map_set (local_gomods st) (path_dir f) (s2b "main"))))
        by (intros K HK; apply map_set_keys; right; exact HK).
      destruct (Nat.le_gt_cases (List.length (split_path f)) 1) as [L|L].
      + destruct (mod_walk_short f st cache' _ L Hw) as [-> _].
        split; cbn [local_gomods gm_cache].
        * intros K v Hin. apply map_set_in in Hin as [[-> ->]|Hin]; [|apply (I1 K v Hin)].
          right. split; [reflexivity|]. exists f. split; [exact Hf|]. split; [reflexivity|].
          intros K' HK HU _. destruct (under_dir_at f K' Hc HK HU) as (s & S1 & S2 & _). lia.
        * intros D K HD HI. apply Hkeys. apply (I2 D K HD HI).
      + split; cbn [local_gomods gm_cache].
        * intros K v Hin. apply map_set_in in Hin as [[-> ->]|Hin]; [|apply (I1 K v Hin)].
          right. split; [reflexivity|]. exists f. split; [exact Hf|]. split; [reflexivity|].
          apply (walk_none_no_module f st cache' Hc L Hw Hinv Hu).
        * apply (walk_cache_inv fs files f Hc L st cache' _ Hw Hinv); [exact Hkeys|intros ? ? X; discriminate X].
    - destruct (Nat.le_gt_cases (List.length (split_path f)) 1) as [L|L].
      { destruct (mod_walk_short f st cache' _ L Hw) as [-> _]. split; assumption. }
      split; cbn [local_gomods gm_cache]; [exact I1|].
      apply (walk_cache_inv fs files f Hc L st cache' _ Hw Hinv); [intros K HK; exact HK|intros ? ? X; discriminate X].
  Qed.

  Lemma fold_modinv l : forall st, modinv st -> (forall g, In g l -> In g files) ->
    modinv (fold_left step l st).
  Proof.
    induction l as [|f l IH]; intros st Hs Hin; cbn [fold_left]; [exact Hs|].
    apply IH; [|intros g Hg; apply Hin; right; exact Hg].
    apply step_modinv; [exact Hs|apply Hin; left; reflexivity].
  Qed.
End Gomod2.

(* ====================================================================== *)
(* 11. go.mod modules: the innermost module directory wins                  *)
(* ====================================================================== *)

Section GomodThm.
  Variable fs : fsys.               (* the disk oracle *)
  Variable lgoroot : bytes.         (* the local GOROOT *)
  Variable lgopaths : list bytes.   (* the local GOPATH entries *)
  Variable files : list bytes.      (* the source files named by the dump *)
  Hypothesis Hclean : forall g, In g files -> clean_path g = true.

  Notation step := (find_roots_step fs lgoroot lgopaths).
  Notation sound := (sound fs lgoroot lgopaths files).
  Notation modinv := (modinv fs files).

  Variables K m f rel : bytes.
  Hypothesis HK : K <> [].
  Hypothesis HKdot : K <> s2b ".".
  Hypothesis Hf : In f files.
  Hypothesis Ef : f = K ++ s2b "/" ++ rel.
  Hypothesis Hm : module_dir fs K m.
  (* K is the innermost module directory above f *)
  Hypothesis Hinner : forall K', K' <> [] -> under K' f -> is_module fs K' -> List.length K' <= List.length K.
  Hypothesis Hgr : not_goroot_captured fs lgoroot files f.
  Hypothesis Hgp : not_gopath_captured fs lgopaths files f.

  Let Hc : clean_path f = true := Hclean f Hf.

  Lemma gm_under : under K f.
  Proof. exists rel. rewrite <- app_assoc. exact Ef. Qed.

  Lemma gm_two : 2 <= List.length (split_path f).
  Proof.
    destruct (under_dir_at f K Hc HK gm_under) as (s & S1 & S2 & _). lia.
  Qed.

  Lemma gm_not_root : K <> s2b "/".
  Proof.
    intros E. apply (proj1 (clean_path_spec f Hc) [] rel). rewrite Ef, E. reflexivity.
  Qed.

  Lemma cache_gives_key st : modinv st -> In (path_dir f) (gm_cache st) -> In K (map fst (local_gomods st)).
  Proof.
    intros Hinv HD. apply (mi_cache fs files st Hinv (path_dir f) K HD).
    destruct (path_dir_dir_at f Hc gm_two) as [EP _]. rewrite EP.
    destruct (under_dir_at f K Hc HK gm_under) as (s & S1 & S2 & EK).
    split; [rewrite EK; apply (E_anc f Hc gm_two); lia|]. split; [exists m; exact Hm|].
    intros K' HA HM. apply Hinner; [exact (proj1 HA)| |exact HM].
    apply (anc_under_f f Hc gm_two K' (List.length (split_path f) - 1)); [pose proof gm_two; lia|exact HA].
  Qed.

  Lemma step_gomod_f st : sound st -> modinv st -> In K (map fst (local_gomods (step st f))).
  Proof.
    intros [S1 S2 S3] Hinv.
    pose proof (step_modinv fs lgoroot lgopaths files Hclean st f Hinv Hf) as Hinv'.
    assert (Hwalk : forall cache' res, mod_walk fs st f = (cache', res) -> In (path_dir f) cache').
    { intros cache' res Hw. pose proof gm_two as H2.
      destruct (mod_walk_spec fs st f cache' res Hc H2 Hw) as (t & Ht & Hin & Hres).
      destruct (path_dir_dir_at f Hc H2) as [EP _]. rewrite EP. apply Hin.
      destruct (Nat.le_gt_cases t (List.length (split_path f) - 1)) as [L|L].
      - right. exists (List.length (split_path f) - 1). split; [lia|reflexivity].
      - left. destruct res as [[root p]|]; [destruct Hres as (R1 & _); lia|].
        destruct Hres as (_ & [->|R2]); [lia|].
        replace (List.length (split_path f) - 1) with (t - 1) by lia. exact R2. }
    destruct (step_cases fs lgoroot lgopaths st f)
      as [Hg Hp|Hp|Hp Hd|r Hg Hs|r l' Hp Hg Ht|cache' root path Hg Ht Hw|cache' Hg Ht Hw Hu
          |cache' Hg Ht Hw Hu Hfile'|cache' Hg Ht Hw Hu Hfile'];
      try (apply (cache_gives_key _ Hinv'); cbn [gm_cache]; apply (Hwalk _ _ Hw)).
    - exfalso. apply (Hgr _ (S1 Hg)). apply has_prefix_iff. exact Hp.
    - exfalso. apply has_src_prefix_in_spec in Hp as (k & Hk & Hpre).
      apply in_keys_value in Hk as [l Hk]. destruct (Hgp k l (S2 k l Hk)) as [N1 N2].
      destruct Hpre as [Hpre|Hpre]; [apply (N1 Hpre)|apply (N2 Hpre)].
    - apply (cache_gives_key st Hinv Hd).
    - exfalso. apply (Hgr r (goroot_probe_cand fs lgoroot files Hclean f r Hf Hs)).
      destruct (strip_some_hit fs lgoroot (s2b "/src") f r Hc) as [tail (_ & E & _)]; [discriminate|exact Hs|].
      exists tail. rewrite src_assoc in E. rewrite <- app_assoc. exact E.
    - exfalso.
      destruct (try_gopaths_self fs files Hclean f lgopaths r l' Hf Ht) as [Hl' (mid & tail & Hmid & E & Hfl)].
      assert (Hcand : gopath_cand fs lgopaths files r l').
      { exists f, mid, tail. split; [exact Hf|]. split; [exact Hl'|]. split; [exact Hmid|]. split; assumption. }
      destruct (Hgp r l' Hcand) as [N1 N2].
      destruct Hmid as [-> | ->]; [apply N1|apply N2]; exists tail; rewrite <- app_assoc; exact E.
  Qed.

  Theorem gomod_final :
    let st := fold_left step files (mkRoots [] [] [] [] 0) in
    In (K, m) (local_gomods st) /\ sound st /\ modinv st.
  Proof.
    intros st.
    assert (Hs : sound st) by (apply fold_sound; [exact Hclean|apply sound_init|intros g Hg; exact Hg]).
    assert (Hi : modinv st) by (apply fold_modinv; [exact Hclean|apply modinv_init|intros g Hg; exact Hg]).
    split; [|split; assumption].
    destruct (in_split f files Hf) as (l1 & l2 & E).
    assert (H1 : forall g, In g l1 -> In g files) by (intros g Hg; rewrite E; apply in_or_app; left; exact Hg).
    assert (Hk : In K (map fst (local_gomods st))).
    { unfold st. rewrite E, fold_left_app. cbn [fold_left]. apply fold_gomod_keys.
      apply step_gomod_f.
      - apply fold_sound; [exact Hclean|apply sound_init|exact H1].
      - apply fold_modinv; [exact Hclean|apply modinv_init|exact H1]. }
    apply in_keys_value in Hk as [v Hk].
    destruct (mi_keys fs files st Hi K v Hk) as [Hv|(_ & g & Hg & EK & Hno)].
    - rewrite (module_dir_fun fs K m v Hm Hv). exact Hk.
    - exfalso. apply (Hno K HK); [|exists m; exact Hm].
      apply path_dir_under; [symmetry; exact EK|exact HKdot|exact gm_not_root].
  Qed.

  (* the table entry -> GoMod, when K is the innermost module directory *)
  Lemma gomod_call st c :
    In (K, m) (local_gomods st) -> sound st -> modinv st -> RemoteSrcPath c = f ->
    rebased c (update_call (remote_goroot st) lgoroot (remote_gopaths st) (local_gomods st) c)
            f rel (mod_import m rel) GoMod.
  Proof.
    intros Hin Hs Hi Hcf.
    pose proof (sound_goroot_miss _ _ _ _ _ _ Hs Hgr) as Mg.
    pose proof (sound_gopaths_miss _ _ _ _ _ _ Hs Hgp) as Mp.
    destruct (update_shape (remote_goroot st) lgoroot (remote_gopaths st) (local_gomods st) c)
      as [H [He|(_ & _ & Hmm)]|rel' Hne Hr _ _ _ _ _|prefix dest rel' _ _ Hin' _ Hr _ _ _ _ _
          |prefix dest rel' _ _ Hin' _ Hr _ _ _ _ _|prefix pkg rel' _ _ _ Hin' Hl Hr HL HR' HI HC HS];
      rewrite ?Hcf in *.
    - exfalso. rewrite He in Ef. destruct K; [contradiction|discriminate Ef].
    - exfalso. apply (Hmm K m Hin rel Ef).
    - exfalso. destruct Mg as [Mg|Mg]; [contradiction|apply (Mg rel' Hr)].
    - exfalso. apply (proj1 (Mp prefix dest Hin') rel' Hr).
    - exfalso. apply (proj2 (Mp prefix dest Hin') rel' Hr).
    - assert (L1 : List.length K <= List.length prefix).
      { apply (Hl K m Hin). exists rel. rewrite <- app_assoc. exact Ef. }
      assert (HP : prefix <> []) by (intros ->; destruct K; [contradiction|cbn in L1; lia]).
      assert (HUp : under prefix f) by (exists rel'; rewrite <- app_assoc; exact Hr).
      assert (Hcmp : K = prefix \/ under K prefix).
      { destruct (Nat.eq_dec (List.length K) (List.length prefix)) as [EL|NL].
        - left. rewrite Ef in Hr. apply app_eq_length_inv in Hr; [apply Hr|exact EL].
        - right. rewrite Ef in Hr.
          assert (X : (K ++ s2b "/") ++ rel = prefix ++ s2b "/" ++ rel') by (rewrite <- app_assoc; exact Hr).
          apply prefix_comparable in X; [exact X|]. rewrite app_length. cbn. lia. }
      assert (EKP : prefix = K).
      { destruct (mi_keys fs files st Hi prefix pkg Hin') as [Hv|(_ & g & Hg & EP & Hno)].
        - destruct Hcmp as [->|HU]; [reflexivity|exfalso].
          pose proof (Hinner prefix HP HUp (ex_intro _ pkg Hv)) as X.
          apply is_prefix_len in HU. rewrite app_length in HU. cbn in HU. lia.
        - exfalso. apply (Hno K HK); [|exists m; exact Hm].
          assert (HUg : under prefix g).
          { apply path_dir_under; [symmetry; exact EP| |].
            - destruct Hcmp as [<-|[r ->]]; [exact HKdot|]. intros E0.
              apply (f_equal (@List.length N)) in E0. rewrite !app_length in E0. cbn in E0.
              destruct K; [contradiction|cbn in E0; lia].
            - destruct Hcmp as [<-|[r ->]]; [exact gm_not_root|]. intros E0.
              apply (f_equal (@List.length N)) in E0. rewrite !app_length in E0. cbn in E0.
              destruct K; [contradiction|cbn in E0; lia]. }
          destruct Hcmp as [->|HU]; [exact HUg|].
          apply (is_prefix_trans _ prefix); [exact HU|].
          destruct HUg as [r Er]. exists (s2b "/" ++ r). rewrite app_assoc. exact Er. }
      subst prefix.
      assert (pkg = m).
      { destruct (mi_keys fs files st Hi K pkg Hin') as [Hv|(_ & g & Hg & EP & Hno)].
        - apply (module_dir_fun fs K pkg m Hv Hm).
        - exfalso. apply (Hno K HK); [|exists m; exact Hm].
          apply path_dir_under; [symmetry; exact EP|exact HKdot|exact gm_not_root]. }
      subst pkg. rewrite Ef in Hr. apply app_inv_head in Hr. apply app_inv_head in Hr. subst rel'.
      split; [rewrite HL; reflexivity|]. split; [exact HR'|]. split; [exact HI|]. split; [exact HC|exact HS].
  Qed.
End GomodThm.

Theorem complete_gomod fs lgoroot lgopaths gs K m f rel :
  (forall g, In g (get_files gs) -> clean_path g = true) ->
  K <> [] -> K <> s2b "." -> In f (get_files gs) -> f = K ++ s2b "/" ++ rel ->
  module_dir fs K m ->
  (forall K', K' <> [] -> under K' f -> is_module fs K' -> List.length K' <= List.length K) ->
  not_goroot_captured fs lgoroot (get_files gs) f ->
  not_gopath_captured fs lgopaths (get_files gs) f ->
  In (K, m) (local_gomods (fst (guess_paths fs lgoroot lgopaths gs))) /\
  calls_related (fun c c' => RemoteSrcPath c = f -> rebased c c' f rel (mod_import m rel) GoMod)
                gs (snd (guess_paths fs lgoroot lgopaths gs)).
Proof.
  intros Hclean HK HKdot Hf Ef Hm Hinner Hgr Hgp.
  destruct (gomod_final fs lgoroot lgopaths (get_files gs) Hclean K m f rel HK HKdot Hf Ef Hm Hinner Hgr Hgp)
    as (Hin & Hs & Hi).
  split; [exact Hin|]. apply guess_related. intros c r Hc. unfold r, guess_paths, find_roots. cbn [fst].
  apply (gomod_call fs lgoroot lgopaths (get_files gs) Hclean K m f rel HK HKdot Hf Ef Hm Hinner Hgr Hgp);
    assumption.
Qed.

(* ====================================================================== *)
(* 12. "go run": a local file outside every module is package main          *)
(* ====================================================================== *)

Section MainRule.
  Variable fs : fsys.               (* the disk oracle *)
  Variable lgoroot : bytes.         (* the local GOROOT *)
  Variable lgopaths : list bytes.   (* the local GOPATH entries *)
  Variable files : list bytes.      (* the source files named by the dump *)
  Hypothesis Hclean : forall g, In g files -> clean_path g = true.

  Notation step := (find_roots_step fs lgoroot lgopaths).
  Notation sound := (sound fs lgoroot lgopaths files).

  Variables D f base : bytes.
  Hypothesis HD : D <> [].
  Hypothesis Hf : In f files.
  Hypothesis Ef : f = D ++ s2b "/" ++ base.
  Hypothesis Hbase : ~ In b_slash base.
  Hypothesis Hfile : is_file fs f = true.
  Hypothesis Hgr : not_goroot_captured fs lgoroot files f.
  Hypothesis Hgp : not_gopath_captured fs lgopaths files f.
  (* no module directory above f; the only directory of a locally existing dump file above f is D *)
  Hypothesis Hnomod : forall K, under K f ->
    (forall m, ~ module_dir fs K m) /\
    (forall g, In g files -> is_file fs g = true -> K = path_dir g -> K = D).

  Lemma mr_path_dir : path_dir f = D.
  Proof.
    unfold path_dir. rewrite Ef. change (s2b "/" ++ base) with (b_slash :: base).
    rewrite (last_index_app_no b_slash base Hbase D).
    destruct D as [|x D0] eqn:ED; [contradiction|]. cbn [List.length].
    rewrite <- ED. replace (S (List.length D0)) with (List.length D) by (rewrite ED; reflexivity).
    rewrite firstn_app, firstn_all, Nat.sub_diag. cbn [firstn]. rewrite app_nil_r. reflexivity.
  Qed.

  Lemma mr_under : under D f.
  Proof. exists base. rewrite <- app_assoc. exact Ef. Qed.

  Lemma mr_key st K : sound st -> In K (map fst (local_gomods st)) -> under K f -> K = D.
  Proof.
    intros [_ _ S3] HK HU. apply in_keys_value in HK as [v HK].
    destruct (Hnomod K HU) as [M1 M2].
    destruct (S3 K v HK) as (g & G1 & _ & _ & [[M _]|(_ & E & F)]); [exfalso; apply (M1 v M)|apply (M2 g G1 F E)].
  Qed.

  Lemma step_main_f st : sound st -> In D (map fst (local_gomods (step st f))).
  Proof.
    intros Hs. pose proof Hs as [S1 S2 S3]. pose proof (Hclean f Hf) as Hc.
    destruct (step_cases fs lgoroot lgopaths st f)
      as [Hg Hp|Hp|Hp Hd|r Hg Hs'|r l' Hp Hg Ht|cache' root path Hg Ht Hw|cache' Hg Ht Hw Hu
          |cache' Hg Ht Hw Hu Hfile'|cache' Hg Ht Hw Hu Hfile'].
    - exfalso. apply (Hgr _ (S1 Hg)). apply has_prefix_iff. exact Hp.
    - exfalso. apply has_src_prefix_in_spec in Hp as (k & Hk & Hpre).
      apply in_keys_value in Hk as [l Hk]. destruct (Hgp k l (S2 k l Hk)) as [N1 N2].
      destruct Hpre as [Hpre|Hpre]; [apply (N1 Hpre)|apply (N2 Hpre)].
    - apply has_prefix_in_spec in Hp as (K & HK & HU). rewrite <- (mr_key st K Hs HK HU). exact HK.
    - exfalso. apply (Hgr r (goroot_probe_cand fs lgoroot files Hclean f r Hf Hs')).
      destruct (strip_some_hit fs lgoroot (s2b "/src") f r Hc) as [tail (_ & E & _)]; [discriminate|exact Hs'|].
      exists tail. rewrite src_assoc in E. rewrite <- app_assoc. exact E.
    - exfalso.
      destruct (try_gopaths_self fs files Hclean f lgopaths r l' Hf Ht) as [Hl' (mid & tail & Hmid & E & Hfl)].
      assert (Hcand : gopath_cand fs lgopaths files r l').
      { exists f, mid, tail. split; [exact Hf|]. split; [exact Hl'|]. split; [exact Hmid|]. split; assumption. }
      destruct (Hgp r l' Hcand) as [N1 N2].
      destruct Hmid as [-> | ->]; [apply N1|apply N2]; exists tail; rewrite <- app_assoc; exact E.
    - exfalso. destruct (mod_walk_some fs st f cache' root path Hc Hw) as [M U].
      apply (proj1 (Hnomod root U) path M).
    - cbn [local_gomods]. apply has_prefix_in_spec in Hu as (K & HK & HU).
      rewrite <- (mr_key st K Hs HK HU). exact HK.
    - cbn [local_gomods]. apply map_set_keys. left. symmetry. apply mr_path_dir.
    - rewrite Hfile in Hfile'. discriminate Hfile'.
  Qed.

  Theorem main_final :
    let st := fold_left step files (mkRoots [] [] [] [] 0) in
    In (D, s2b "main") (local_gomods st) /\ sound st.
  Proof.
    intros st.
    assert (Hs : sound st) by (apply fold_sound; [exact Hclean|apply sound_init|intros g Hg; exact Hg]).
    split; [|exact Hs].
    destruct (in_split f files Hf) as (l1 & l2 & E).
    assert (H1 : forall g, In g l1 -> In g files) by (intros g Hg; rewrite E; apply in_or_app; left; exact Hg).
    assert (Hk : In D (map fst (local_gomods st))).
    { unfold st. rewrite E, fold_left_app. cbn [fold_left]. apply fold_gomod_keys.
      apply step_main_f. apply fold_sound; [exact Hclean|apply sound_init|exact H1]. }
    apply in_keys_value in Hk as [v Hk]. destruct Hs as [_ _ S3].
    destruct (S3 D v Hk) as (g & _ & _ & _ & [[M _]|(-> & _)]); [|exact Hk].
    exfalso. apply (proj1 (Hnomod D mr_under) v M).
  Qed.

  Lemma main_call st c :
    In (D, s2b "main") (local_gomods st) -> sound st -> RemoteSrcPath c = f ->
    rebased c (update_call (remote_goroot st) lgoroot (remote_gopaths st) (local_gomods st) c)
            f base (s2b "main") GoMod.
  Proof.
    intros Hin Hs Hcf.
    pose proof (sound_goroot_miss _ _ _ _ _ _ Hs Hgr) as Mg.
    pose proof (sound_gopaths_miss _ _ _ _ _ _ Hs Hgp) as Mp.
    destruct (update_shape (remote_goroot st) lgoroot (remote_gopaths st) (local_gomods st) c)
      as [H [He|(_ & _ & Hmm)]|rel' Hne Hr _ _ _ _ _|prefix dest rel' _ _ Hin' _ Hr _ _ _ _ _
          |prefix dest rel' _ _ Hin' _ Hr _ _ _ _ _|prefix pkg rel' _ _ _ Hin' Hl Hr HL HR' HI HC HS];
      rewrite ?Hcf in *.
    - exfalso. rewrite He in Ef. destruct D; [contradiction|discriminate Ef].
    - exfalso. apply (Hmm D _ Hin base Ef).
    - exfalso. destruct Mg as [Mg|Mg]; [contradiction|apply (Mg rel' Hr)].
    - exfalso. apply (proj1 (Mp prefix dest Hin') rel' Hr).
    - exfalso. apply (proj2 (Mp prefix dest Hin') rel' Hr).
    - assert (HU : under prefix f) by (exists rel'; rewrite <- app_assoc; exact Hr).
      assert (EP : prefix = D) by (apply (mr_key st prefix Hs (in_map fst _ _ Hin') HU)).
      subst prefix.
      assert (pkg = s2b "main").
      { destruct Hs as [_ _ S3]. destruct (S3 D pkg Hin') as (g & _ & _ & _ & [[M _]|(E & _)]); [|exact E].
        exfalso. apply (proj1 (Hnomod D mr_under) pkg M). }
      subst pkg. rewrite Ef in Hr. apply app_inv_head in Hr. apply app_inv_head in Hr. subst rel'.
      split; [rewrite HL; reflexivity|]. split; [exact HR'|]. split; [|split; [exact HC|exact HS]].
      rewrite HI. apply (proj2 (mod_import_spec (s2b "main") base) Hbase).
  Qed.
End MainRule.

Theorem complete_main fs lgoroot lgopaths gs D f base :
  (forall g, In g (get_files gs) -> clean_path g = true) ->
  D <> [] -> In f (get_files gs) -> f = D ++ s2b "/" ++ base -> ~ In b_slash base ->
  is_file fs f = true ->
  not_goroot_captured fs lgoroot (get_files gs) f ->
  not_gopath_captured fs lgopaths (get_files gs) f ->
  (forall K, under K f ->
     (forall m, ~ module_dir fs K m) /\
     (forall g, In g (get_files gs) -> is_file fs g = true -> K = path_dir g -> K = D)) ->
  In (D, s2b "main") (local_gomods (fst (guess_paths fs lgoroot lgopaths gs))) /\
  calls_related (fun c c' => RemoteSrcPath c = f -> rebased c c' f base (s2b "main") GoMod)
                gs (snd (guess_paths fs lgoroot lgopaths gs)).
Proof.
  intros Hclean HD Hf Ef Hbase Hfile Hgr Hgp Hnomod.
  destruct (main_final fs lgoroot lgopaths (get_files gs) Hclean D f base HD Hf Ef Hbase Hfile Hgr Hgp Hnomod)
    as (Hin & Hs).
  split; [exact Hin|]. apply guess_related. intros c r Hc. unfold r, guess_paths, find_roots. cbn [fst].
  apply (main_call fs lgoroot lgopaths (get_files gs) D f base HD Ef Hbase Hgr Hgp Hnomod); assumption.
Qed.

(* ====================================================================== *)
(* 13. the hypotheses are decidable: boolean checkers                       *)
(* ====================================================================== *)

Fixpoint cuts_go (pre p : bytes) : list (bytes * bytes) :=
  match p with
  | [] => []
  | c :: p' => (if N.eqb c b_slash then [(pre, p')] else []) ++ cuts_go (pre ++ [c]) p'
  end.
(* all the ways of writing g as X ++ "/" ++ tail *)
Definition cuts (g : bytes) : list (bytes * bytes) := cuts_go [] g.

Lemma cuts_go_spec p : forall pre X tail,
  In (X, tail) (cuts_go pre p) <-> exists X0, X = pre ++ X0 /\ p = X0 ++ b_slash :: tail.
Proof.
  induction p as [|c p IH]; intros pre X tail; cbn [cuts_go].
  - split; [intros []|intros (X0 & _ & E); destruct X0; discriminate E].
  - rewrite in_app_iff, IH. split.
    + intros [H|(X1 & E1 & E2)].
      * destruct (N.eqb c b_slash) eqn:Ec; [|contradiction]. apply N.eqb_eq in Ec. subst c.
        destruct H as [H|[]]. injection H as <- <-. exists []. rewrite app_nil_r. split; reflexivity.
      * exists (c :: X1). split; [rewrite E1, <- app_assoc; reflexivity|rewrite E2; reflexivity].
    + intros (X0 & E1 & E2). destruct X0 as [|x X0].
      * left. cbn [app] in E2. injection E2 as -> ->. rewrite N.eqb_refl, app_nil_r in *. left. rewrite E1. reflexivity.
      * right. cbn [app] in E2. injection E2 as <- E2. exists X0. split; [rewrite E1, <- app_assoc; reflexivity|exact E2].
Qed.

Lemma cuts_spec g X tail : In (X, tail) (cuts g) <-> g = X ++ b_slash :: tail.
Proof.
  unfold cuts. rewrite cuts_go_spec. split.
  - intros (X0 & -> & E). exact E.
  - intros E. exists X. split; [reflexivity|exact E].
Qed.

Lemma under_cuts K g : under K g <-> exists tail, In (K, tail) (cuts g).
Proof.
  unfold under, is_prefix. split; intros [t H]; exists t.
  - apply cuts_spec. rewrite H, <- app_assoc. reflexivity.
  - apply cuts_spec in H. rewrite H, <- app_assoc. reflexivity.
Qed.

Definition underb (K f : bytes) : bool := has_prefix f (K ++ s2b "/").
Lemma underb_spec K f : underb K f = true <-> under K f.
Proof. unfold underb, under, is_prefix. apply has_prefix_iff. Qed.

Section Checkers.
  Variable fs : fsys.               (* the disk oracle *)
  Variable lgoroot : bytes.         (* the local GOROOT *)
  Variable lgopaths : list bytes.   (* the local GOPATH entries *)
  Variable files : list bytes.      (* the source files named by the dump *)

  Definition hits_list (root g : bytes) : list (bytes * bytes) :=
    filter (fun xt => negb (isnil (fst xt)) && is_file fs (root ++ b_slash :: snd xt)) (cuts g).

  Lemma hits_spec root g X tail : hit fs root g X tail <-> In (X, tail) (hits_list root g).
  Proof.
    unfold hit, hits_list. rewrite filter_In, cuts_spec. cbn [fst snd]. split.
    - intros (H1 & H2 & H3). split; [exact H2|]. rewrite H3. destruct X; [contradiction|reflexivity].
    - intros (H2 & H3). apply andb_true_iff in H3 as [H1 H3].
      split; [intros ->; discriminate H1|]. split; assumption.
  Qed.

  (* roots read off a list of hits: the cut-off parts that end with sfx, without it *)
  Definition roots_of (sfx : bytes) (hs : list (bytes * bytes)) : list bytes :=
    flat_map (fun xt => match strip_suffix_root (fst xt) sfx with Some G => [G] | None => [] end) hs.

  Lemma roots_of_in sfx hs G tail : In (G ++ sfx, tail) hs -> In G (roots_of sfx hs).
  Proof.
    intros H. unfold roots_of. apply in_flat_map. exists (G ++ sfx, tail). split; [exact H|].
    cbn [fst]. rewrite strip_suffix_root_app. left. reflexivity.
  Qed.

  Definition goroot_cands : list bytes :=
    flat_map (fun g => roots_of (s2b "/src") (hits_list (lgoroot ++ s2b "/src") g)) files.

  Lemma goroot_cands_spec G : goroot_cand fs lgoroot files G -> In G goroot_cands.
  Proof.
    intros (g & tail & Hg & E & Hf). unfold goroot_cands. apply in_flat_map. exists g. split; [exact Hg|].
    apply (roots_of_in _ _ G tail). apply hits_spec.
    split; [destruct G; discriminate|]. rewrite !src_assoc. split; assumption.
  Qed.

  Definition gopath_cands : list (bytes * bytes) :=
    flat_map (fun g => flat_map (fun l =>
      map (fun P => (P, l)) (roots_of (s2b "/src") (hits_list (l ++ s2b "/src") g) ++
                             roots_of (s2b "/pkg/mod") (hits_list (l ++ s2b "/pkg/mod") g))) lgopaths) files.

  Lemma gopath_cands_spec P l : gopath_cand fs lgopaths files P l -> In (P, l) gopath_cands.
  Proof.
    intros (g & mid & tail & Hg & Hl & Hmid & E & Hf). unfold gopath_cands.
    apply in_flat_map. exists g. split; [exact Hg|]. apply in_flat_map. exists l. split; [exact Hl|].
    apply (in_map (fun P0 : bytes => (P0, l))). apply in_or_app. destruct Hmid as [-> | ->]; [left|right].
    - apply (roots_of_in _ _ P tail). apply hits_spec.
      split; [destruct P; discriminate|]. rewrite !src_assoc. split; assumption.
    - apply (roots_of_in _ _ P tail). apply hits_spec.
      split; [destruct P; discriminate|]. rewrite !mod_assoc. split; assumption.
  Qed.

  Definition found_inb (root sfx g : bytes) : bool :=
    let h := hits_list (root ++ sfx) g in
    negb (match h with [] => true | _ => false end) && forallb (fun xt => has_suffix (fst xt) sfx) h.

  Lemma found_inb_spec root sfx g : found_inb root sfx g = true -> found_in fs root sfx g.
  Proof.
    unfold found_inb, found_in. cbv zeta. intros H. apply andb_true_iff in H as [H1 H2]. split.
    - destruct (hits_list (root ++ sfx) g) as [|[X tail] h] eqn:E; [discriminate H1|].
      exists X, tail. apply hits_spec. rewrite E. left. reflexivity.
    - intros X tail Hh. apply hits_spec in Hh. rewrite forallb_forall in H2. apply (H2 (X, tail) Hh).
  Qed.

  Definition gopath_foundb (g : bytes) : bool :=
    existsb (fun l => found_inb l (s2b "/src") g || found_inb l (s2b "/pkg/mod") g) lgopaths.

  Lemma gopath_foundb_spec g : gopath_foundb g = true -> gopath_found fs lgopaths g.
  Proof.
    unfold gopath_foundb. rewrite existsb_exists. intros (l & Hl & H). exists l. split; [exact Hl|].
    apply orb_true_iff in H as [H|H]; [left|right]; apply found_inb_spec; exact H.
  Qed.

  Definition is_moduleb (K : bytes) : bool :=
    match fs_lookup fs (K ++ s2b "/go.mod") with
    | Some c => match find_module c with Some _ => true | None => false end
    | None => false
    end.

  Lemma is_moduleb_spec K : is_module fs K -> is_moduleb K = true.
  Proof. intros (m & c & L & F). unfold is_moduleb. rewrite L, F. reflexivity. Qed.

  (* ---- the checkers ---- *)
  Definition cleanb : bool := forallb clean_path files.

  Definition goroot_unambiguousb (R : bytes) : bool :=
    forallb (fun g => forallb (fun xt => beq (fst xt) (R ++ s2b "/src")) (hits_list (lgoroot ++ s2b "/src") g)) files.

  Definition not_goroot_capturedb (f : bytes) : bool :=
    forallb (fun G => negb (has_prefix f (G ++ s2b "/src/"))) goroot_cands.

  Definition not_gopath_capturedb (f : bytes) : bool :=
    forallb (fun pl => negb (has_prefix f (fst pl ++ s2b "/src/")) && negb (has_prefix f (fst pl ++ s2b "/pkg/mod/")))
            gopath_cands.

  Definition gopath_uniqueb (f P l : bytes) : bool :=
    forallb (fun pl => if has_prefix f (fst pl ++ s2b "/src/") || has_prefix f (fst pl ++ s2b "/pkg/mod/")
                       then beq (fst pl) P && beq (snd pl) l else true) gopath_cands.

  Definition alignedb (pk : bool) (l P f : bytes) : bool :=
    forallb (fun xt => beq (fst xt) (P ++ sfx_of pk)) (hits_list (l ++ sfx_of pk) f).

  Definition not_module_capturedb (std : bool) (f : bytes) : bool :=
    forallb (fun g =>
      gopath_foundb g || (std && found_inb lgoroot (s2b "/src") g) ||
      (forallb (fun xt => negb (is_moduleb (fst xt)) || negb (underb (fst xt) f)) (cuts g) &&
       (negb (is_file fs g) || negb (underb (path_dir g) f)))) files.

  Definition innermostb (K f : bytes) : bool :=
    forallb (fun xt => isnil (fst xt) || negb (is_moduleb (fst xt)) ||
                       Nat.leb (List.length (fst xt)) (List.length K)) (cuts f).

  Definition not_module_rootedb (f : bytes) : bool :=
    forallb (fun xt => negb (is_moduleb (fst xt)) &&
                       forallb (fun g => negb (is_file fs g && beq (fst xt) (path_dir g))) files) (cuts f).

  Definition main_onlyb (D f : bytes) : bool :=
    forallb (fun xt => negb (is_moduleb (fst xt)) &&
                       forallb (fun g => negb (is_file fs g && beq (fst xt) (path_dir g)) || beq (fst xt) D) files)
            (cuts f).
End Checkers.

Section CheckersSound.
  Variable fs : fsys.               (* the disk oracle *)
  Variable lgoroot : bytes.         (* the local GOROOT *)
  Variable lgopaths : list bytes.   (* the local GOPATH entries *)
  Variable files : list bytes.      (* the source files named by the dump *)

  Lemma cleanb_sound : cleanb files = true -> forall g, In g files -> clean_path g = true.
  Proof. unfold cleanb. rewrite forallb_forall. intros H; exact H. Qed.

  Lemma goroot_unambiguousb_sound R :
    goroot_unambiguousb fs lgoroot files R = true -> goroot_unambiguous fs lgoroot files R.
  Proof.
    unfold goroot_unambiguousb. rewrite forallb_forall. intros H g X tail Hg Hh.
    specialize (H g Hg). rewrite forallb_forall in H. apply hits_spec in Hh.
    apply beq_eq. apply (H (X, tail) Hh).
  Qed.

  Lemma not_goroot_capturedb_sound f :
    not_goroot_capturedb fs lgoroot files f = true -> not_goroot_captured fs lgoroot files f.
  Proof.
    unfold not_goroot_capturedb. rewrite forallb_forall. intros H G HG Hp.
    specialize (H G (goroot_cands_spec fs lgoroot files G HG)). apply negb_true_iff in H.
    apply has_prefix_iff in Hp. rewrite Hp in H. discriminate H.
  Qed.

  Lemma not_gopath_capturedb_sound f :
    not_gopath_capturedb fs lgopaths files f = true -> not_gopath_captured fs lgopaths files f.
  Proof.
    unfold not_gopath_capturedb. rewrite forallb_forall. intros H P l HP.
    specialize (H (P, l) (gopath_cands_spec fs lgopaths files P l HP)). cbn [fst] in H.
    apply andb_true_iff in H as [H1 H2]. apply negb_true_iff in H1, H2.
    split; intros Hp; apply has_prefix_iff in Hp; [rewrite Hp in H1; discriminate H1|rewrite Hp in H2; discriminate H2].
  Qed.

  Lemma gopath_uniqueb_sound f P l :
    gopath_uniqueb fs lgopaths files f P l = true -> gopath_unique fs lgopaths files f P l.
  Proof.
    unfold gopath_uniqueb. rewrite forallb_forall. intros H P' l' HP Hp.
    specialize (H (P', l') (gopath_cands_spec fs lgopaths files P' l' HP)). cbn [fst snd] in H.
    assert (E : has_prefix f (P' ++ s2b "/src/") || has_prefix f (P' ++ s2b "/pkg/mod/") = true).
    { apply orb_true_iff. destruct Hp as [Hp|Hp]; [left|right]; apply has_prefix_iff; exact Hp. }
    rewrite E in H. apply andb_true_iff in H as [H1 H2]. split; apply beq_eq; assumption.
  Qed.

  Lemma alignedb_sound pk l P f :
    alignedb fs pk l P f = true -> forall X tail, hit fs (l ++ sfx_of pk) f X tail -> X = P ++ sfx_of pk.
  Proof.
    unfold alignedb. rewrite forallb_forall. intros H X tail Hh. apply hits_spec in Hh.
    apply beq_eq. apply (H (X, tail) Hh).
  Qed.

  Lemma not_module_capturedb_sound std f :
    not_module_capturedb fs lgoroot lgopaths files std f = true ->
    not_module_captured fs lgoroot lgopaths files std f.
  Proof.
    unfold not_module_capturedb. rewrite forallb_forall. intros H g K Hg Hnf Hng Hk HU.
    specialize (H g Hg). apply orb_true_iff in H as [H|H].
    - apply orb_true_iff in H as [H|H].
      + apply Hnf. apply gopath_foundb_spec. exact H.
      + apply andb_true_iff in H as [Hs H]. apply (Hng Hs). apply found_inb_spec. exact H.
    - apply andb_true_iff in H as [H1 H2]. destruct Hk as [[HM HUg]|[EK Hfile]].
      + apply under_cuts in HUg as [tail Hin]. rewrite forallb_forall in H1.
        specialize (H1 (K, tail) Hin). cbn [fst] in H1.
        rewrite (is_moduleb_spec fs K HM) in H1. cbn [negb orb] in H1.
        apply negb_true_iff in H1. apply underb_spec in HU. rewrite HU in H1. discriminate H1.
      + rewrite Hfile in H2. cbn [negb orb] in H2. apply negb_true_iff in H2.
        subst K. apply underb_spec in HU. rewrite HU in H2. discriminate H2.
  Qed.

  Lemma innermostb_sound K f :
    innermostb fs K f = true ->
    forall K', K' <> [] -> under K' f -> is_module fs K' -> List.length K' <= List.length K.
  Proof.
    unfold innermostb. rewrite forallb_forall. intros H K' HK HU HM.
    apply under_cuts in HU as [tail Hin]. specialize (H (K', tail) Hin). cbn [fst] in H.
    rewrite (is_moduleb_spec fs K' HM) in H. destruct K' as [|x K']; [contradiction|].
    cbn [isnil negb orb] in H. apply Nat.leb_le. exact H.
  Qed.

  Lemma not_module_rootedb_sound f :
    not_module_rootedb fs files f = true -> not_module_rooted fs files f.
  Proof.
    unfold not_module_rootedb. rewrite forallb_forall. intros H K HU.
    apply under_cuts in HU as [tail Hin]. specialize (H (K, tail) Hin). cbn [fst] in H.
    apply andb_true_iff in H as [H1 H2]. split.
    - intros m HM. rewrite (is_moduleb_spec fs K (ex_intro _ m HM)) in H1. discriminate H1.
    - intros g Hg Hfile E. rewrite forallb_forall in H2. specialize (H2 g Hg).
      rewrite Hfile, E, beq_refl in H2. discriminate H2.
  Qed.

  Lemma main_onlyb_sound D f :
    main_onlyb fs files D f = true ->
    forall K, under K f ->
      (forall m, ~ module_dir fs K m) /\
      (forall g, In g files -> is_file fs g = true -> K = path_dir g -> K = D).
  Proof.
    unfold main_onlyb. rewrite forallb_forall. intros H K HU.
    apply under_cuts in HU as [tail Hin]. specialize (H (K, tail) Hin). cbn [fst] in H.
    apply andb_true_iff in H as [H1 H2]. split.
    - intros m HM. rewrite (is_moduleb_spec fs K (ex_intro _ m HM)) in H1. discriminate H1.
    - intros g Hg Hfile E. rewrite forallb_forall in H2. specialize (H2 g Hg).
      rewrite Hfile, <- E, beq_refl in H2. cbn [andb negb orb] in H2. apply beq_eq. exact H2.
  Qed.
End CheckersSound.

(* ---- one boolean per theorem: the layout is unambiguous for the file f ---- *)
Definition unambiguous_goroot fs lgoroot lgopaths files R f : bool :=
  cleanb files && goroot_unambiguousb fs lgoroot files R &&
  not_gopath_capturedb fs lgopaths files f && not_module_capturedb fs lgoroot lgopaths files true f.

Definition unambiguous_gopath (pk : bool) fs lgoroot lgopaths files P l f : bool :=
  cleanb files && not_goroot_capturedb fs lgoroot files f && gopath_uniqueb fs lgopaths files f P l &&
  alignedb fs pk l P f && not_module_capturedb fs lgoroot lgopaths files false f.

Definition unambiguous_gomod fs lgoroot lgopaths files K f : bool :=
  cleanb files && negb (isnil K) && negb (beq K (s2b ".")) && innermostb fs K f &&
  not_goroot_capturedb fs lgoroot files f && not_gopath_capturedb fs lgopaths files f.

Definition unambiguous_main fs lgoroot lgopaths files D f : bool :=
  cleanb files && main_onlyb fs files D f &&
  not_goroot_capturedb fs lgoroot files f && not_gopath_capturedb fs lgopaths files f.

Definition outside_all_roots fs lgoroot lgopaths files f : bool :=
  cleanb files && not_goroot_capturedb fs lgoroot files f && not_gopath_capturedb fs lgopaths files f &&
  not_module_rootedb fs files f.

Theorem complete_goroot_b fs lgoroot lgopaths gs R f rel :
  unambiguous_goroot fs lgoroot lgopaths (get_files gs) R f = true ->
  R <> [] -> In f (get_files gs) -> f = R ++ s2b "/src/" ++ rel ->
  is_file fs (lgoroot ++ s2b "/src/" ++ rel) = true ->
  remote_goroot (fst (guess_paths fs lgoroot lgopaths gs)) = R /\
  calls_related (fun c c' => RemoteSrcPath c = f ->
                   rebased c c' (lgoroot ++ s2b "/src/" ++ rel) rel (dir_import c rel) Stdlib)
                gs (snd (guess_paths fs lgoroot lgopaths gs)).
Proof.
  unfold unambiguous_goroot. intros H HR Hf Ef Hfile.
  apply andb_true_iff in H as [H H4]. apply andb_true_iff in H as [H H3]. apply andb_true_iff in H as [H1 H2].
  apply complete_goroot; try assumption.
  - apply cleanb_sound, H1.
  - apply goroot_unambiguousb_sound, H2.
  - apply not_gopath_capturedb_sound, H3.
  - apply not_module_capturedb_sound, H4.
Qed.

Theorem complete_gopath_b pk fs lgoroot lgopaths gs P l f rel :
  unambiguous_gopath pk fs lgoroot lgopaths (get_files gs) P l f = true ->
  In f (get_files gs) -> f = P ++ mid_of pk ++ rel -> In l lgopaths ->
  is_file fs (l ++ mid_of pk ++ rel) = true ->
  In (P, l) (remote_gopaths (fst (guess_paths fs lgoroot lgopaths gs))) /\
  calls_related (fun c c' => RemoteSrcPath c = f ->
                   rebased c c' (l ++ mid_of pk ++ rel) rel (dir_import c rel) (loc_of pk))
                gs (snd (guess_paths fs lgoroot lgopaths gs)).
Proof.
  unfold unambiguous_gopath. intros H Hf Ef Hl Hfile.
  apply andb_true_iff in H as [H H5]. apply andb_true_iff in H as [H H4].
  apply andb_true_iff in H as [H H3]. apply andb_true_iff in H as [H1 H2].
  apply complete_gopath_gen; try assumption.
  - apply cleanb_sound, H1.
  - apply not_goroot_capturedb_sound, H2.
  - apply gopath_uniqueb_sound, H3.
  - apply alignedb_sound, H4.
  - apply not_module_capturedb_sound, H5.
Qed.

Theorem complete_gomod_b fs lgoroot lgopaths gs K m f rel :
  unambiguous_gomod fs lgoroot lgopaths (get_files gs) K f = true ->
  In f (get_files gs) -> f = K ++ s2b "/" ++ rel -> module_dir fs K m ->
  In (K, m) (local_gomods (fst (guess_paths fs lgoroot lgopaths gs))) /\
  calls_related (fun c c' => RemoteSrcPath c = f -> rebased c c' f rel (mod_import m rel) GoMod)
                gs (snd (guess_paths fs lgoroot lgopaths gs)).
Proof.
  unfold unambiguous_gomod. intros H Hf Ef Hm.
  apply andb_true_iff in H as [H H6]. apply andb_true_iff in H as [H H5]. apply andb_true_iff in H as [H H4].
  apply andb_true_iff in H as [H H3]. apply andb_true_iff in H as [H1 H2].
  apply complete_gomod; try assumption.
  - apply cleanb_sound, H1.
  - intros ->. discriminate H2.
  - intros ->. discriminate H3.
  - apply innermostb_sound, H4.
  - apply not_goroot_capturedb_sound, H5.
  - apply not_gopath_capturedb_sound, H6.
Qed.

Theorem complete_main_b fs lgoroot lgopaths gs D f base :
  unambiguous_main fs lgoroot lgopaths (get_files gs) D f = true ->
  D <> [] -> In f (get_files gs) -> f = D ++ s2b "/" ++ base -> ~ In b_slash base ->
  is_file fs f = true ->
  In (D, s2b "main") (local_gomods (fst (guess_paths fs lgoroot lgopaths gs))) /\
  calls_related (fun c c' => RemoteSrcPath c = f -> rebased c c' f base (s2b "main") GoMod)
                gs (snd (guess_paths fs lgoroot lgopaths gs)).
Proof.
  unfold unambiguous_main. intros H HD Hf Ef Hb Hfile.
  apply andb_true_iff in H as [H H4]. apply andb_true_iff in H as [H H3]. apply andb_true_iff in H as [H1 H2].
  apply complete_main; try assumption.
  - apply cleanb_sound, H1.
  - apply not_goroot_capturedb_sound, H3.
  - apply not_gopath_capturedb_sound, H4.
  - apply main_onlyb_sound, H2.
Qed.

Theorem unresolved_unchanged_b fs lgoroot lgopaths gs f :
  outside_all_roots fs lgoroot lgopaths (get_files gs) f = true ->
  calls_related (fun c c' => RemoteSrcPath c = f -> c' = c) gs (snd (guess_paths fs lgoroot lgopaths gs)).
Proof.
  unfold outside_all_roots. intros H.
  apply andb_true_iff in H as [H H4]. apply andb_true_iff in H as [H H3]. apply andb_true_iff in H as [H1 H2].
  apply unresolved_unchanged.
  - apply cleanb_sound, H1.
  - apply not_goroot_capturedb_sound, H2.
  - apply not_gopath_capturedb_sound, H3.
  - apply not_module_rootedb_sound, H4.
Qed.

(* ====================================================================== *)
(* 14. reading the conclusions on the output of guess_paths                 *)
(* ====================================================================== *)

Lemma Forall2_and {A B} (P Q : A -> B -> Prop) l l' :
  Forall2 P l l' -> Forall2 Q l l' -> Forall2 (fun x y => P x y /\ Q x y) l l'.
Proof.
  intros HP. induction HP as [|x y l l' Hxy _ IH]; intros HQ; inversion HQ; subst; constructor;
    [split; assumption|apply IH; assumption].
Qed.

Lemma calls_related_and P Q gs gs' :
  calls_related P gs gs' -> calls_related Q gs gs' -> calls_related (fun c c' => P c c' /\ Q c c') gs gs'.
Proof.
  unfold calls_related. intros HP HQ. pose proof (Forall2_and _ _ _ _ HP HQ) as H.
  clear HP HQ. induction H as [|g g' l l' [[P1 P2] [Q1 Q2]] _ IH]; constructor; [|exact IH].
  split; apply Forall2_and; assumption.
Qed.

Theorem guess_same_remote fs lgoroot lgopaths gs :
  calls_related (fun c c' => RemoteSrcPath c' = RemoteSrcPath c) gs (snd (guess_paths fs lgoroot lgopaths gs)).
Proof.
  apply guess_related. intros c r.
  pose proof (update_call_core (remote_goroot r) lgoroot (remote_gopaths r) (local_gomods r) c) as H.
  unfold call_core in H. injection H as _ _ H _ _ _. exact H.
Qed.

(* every call of the OUTPUT whose remote path is f: local path, relative path; the import path and
   the class are those of the theorem, computed from the input call it comes from *)
Theorem complete_out fs lgoroot lgopaths gs f local rel (imp : Call -> bytes) loc :
  calls_related (fun c c' => RemoteSrcPath c = f -> rebased c c' local rel (imp c) loc)
                gs (snd (guess_paths fs lgoroot lgopaths gs)) ->
  forall g' c', In g' (snd (guess_paths fs lgoroot lgopaths gs)) -> In c' (all_calls g') ->
    RemoteSrcPath c' = f ->
    LocalSrcPath c' = local /\ RelSrcPath c' = rel /\
    exists g c, In g gs /\ In c (all_calls g) /\ RemoteSrcPath c = f /\
      CImportPath c' = imp c /\ CLocation c' = classify c loc.
Proof.
  intros H g' c' Hg' Hc' Hr.
  pose proof (calls_related_and _ _ _ _ (guess_same_remote fs lgoroot lgopaths gs) H) as H2.
  destruct (calls_related_out _ _ _ g' c' H2 Hg' Hc') as (g & c & Hg & Hc & E & Hreb).
  rewrite Hr in E. destruct (Hreb (eq_sym E)) as (R1 & R2 & R3 & R4 & _).
  split; [exact R1|]. split; [exact R2|]. exists g, c.
  split; [exact Hg|]. split; [exact Hc|]. split; [symmetry; exact E|]. split; assumption.
Qed.

(* the plain reading: frames not classified by the scanner, relative path dir/base *)
Theorem complete_out_plain fs lgoroot lgopaths gs f local dir base loc :
  calls_related (fun c c' => RemoteSrcPath c = f ->
                   rebased c c' local (dir ++ [b_slash] ++ base) (dir_import c (dir ++ [b_slash] ++ base)) loc)
                gs (snd (guess_paths fs lgoroot lgopaths gs)) ->
  ~ In b_slash base ->
  (forall g c, In g gs -> In c (all_calls g) -> RemoteSrcPath c = f -> CLocation c = LocationUnknown) ->
  forall g' c', In g' (snd (guess_paths fs lgoroot lgopaths gs)) -> In c' (all_calls g') ->
    RemoteSrcPath c' = f ->
    LocalSrcPath c' = local /\ RelSrcPath c' = dir ++ [b_slash] ++ base /\
    CImportPath c' = dir /\ CLocation c' = loc.
Proof.
  intros H Hb Hfresh g' c' Hg' Hc' Hr.
  destruct (complete_out fs lgoroot lgopaths gs f local _ _ loc H g' c' Hg' Hc' Hr)
    as (R1 & R2 & g & c & Hg & Hc & Ec & R3 & R4).
  split; [exact R1|]. split; [exact R2|]. split.
  - rewrite R3. apply (proj1 (dir_import_spec c _) dir base eq_refl Hb).
  - rewrite R4. unfold classify. rewrite (Hfresh g c Hg Hc Ec). reflexivity.
Qed.

Lemma Forall2_impl {A B} (P Q : A -> B -> Prop) l l' :
  (forall x y, P x y -> Q x y) -> Forall2 P l l' -> Forall2 Q l l'.
Proof. intros H HP. induction HP; constructor; [apply H; assumption|assumption]. Qed.

Lemma calls_related_impl (P Q : Call -> Call -> Prop) gs gs' :
  (forall c c', P c c' -> Q c c') -> calls_related P gs gs' -> calls_related Q gs gs'.
Proof.
  intros H. unfold calls_related. apply Forall2_impl. intros g g' [H1 H2].
  split; apply (Forall2_impl P Q); assumption.
Qed.

(* frames under none of the possible roots stay unknown, with no local path *)
Theorem unresolved_unknown fs lgoroot lgopaths gs f :
  (forall g, In g (get_files gs) -> clean_path g = true) ->
  not_goroot_captured fs lgoroot (get_files gs) f ->
  not_gopath_captured fs lgopaths (get_files gs) f ->
  not_module_rooted fs (get_files gs) f ->
  calls_related (fun c c' => RemoteSrcPath c = f ->
                   LocalSrcPath c = [] -> RelSrcPath c = [] -> CLocation c = LocationUnknown ->
                   LocalSrcPath c' = [] /\ RelSrcPath c' = [] /\ CLocation c' = LocationUnknown /\
                   CImportPath c' = CImportPath c)
                gs (snd (guess_paths fs lgoroot lgopaths gs)).
Proof.
  intros Hclean Hgr Hgp Hmr.
  refine (calls_related_impl _ _ _ _ _ (unresolved_unchanged fs lgoroot lgopaths gs f Hclean Hgr Hgp Hmr)).
  intros c c' H Hr H1 H2 H3. rewrite (H Hr). repeat split; assumption.
Qed.

(* the same for the roots that WERE detected, whatever the disk *)
Theorem unresolved_detected fs lgoroot lgopaths gs f :
  let r := fst (guess_paths fs lgoroot lgopaths gs) in
  goroot_miss (remote_goroot r) f -> gopaths_miss (remote_gopaths r) f -> gomods_miss (local_gomods r) f ->
  calls_related (fun c c' => RemoteSrcPath c = f -> c' = c) gs (snd (guess_paths fs lgoroot lgopaths gs)).
Proof.
  intros r Hg Hp Hm. apply guess_related. intros c r' Hc. apply unmatched_unchanged; rewrite Hc; assumption.
Qed.

(* plain forms: every output call whose remote path is f *)
Theorem complete_goroot_plain fs lgoroot lgopaths gs R f dir base :
  (forall g, In g (get_files gs) -> clean_path g = true) ->
  R <> [] -> In f (get_files gs) -> f = R ++ s2b "/src/" ++ dir ++ [b_slash] ++ base -> ~ In b_slash base ->
  is_file fs (lgoroot ++ s2b "/src/" ++ dir ++ [b_slash] ++ base) = true ->
  goroot_unambiguous fs lgoroot (get_files gs) R ->
  not_gopath_captured fs lgopaths (get_files gs) f ->
  not_module_captured fs lgoroot lgopaths (get_files gs) true f ->
  (forall g c, In g gs -> In c (all_calls g) -> RemoteSrcPath c = f -> CLocation c = LocationUnknown) ->
  forall g' c', In g' (snd (guess_paths fs lgoroot lgopaths gs)) -> In c' (all_calls g') ->
    RemoteSrcPath c' = f ->
    LocalSrcPath c' = lgoroot ++ s2b "/src/" ++ dir ++ [b_slash] ++ base /\
    RelSrcPath c' = dir ++ [b_slash] ++ base /\ CImportPath c' = dir /\ CLocation c' = Stdlib.
Proof.
  intros Hclean HR Hf Ef Hb Hfile Hun Hgp Hmod Hfresh.
  apply (complete_out_plain fs lgoroot lgopaths gs f _ dir base Stdlib); [|exact Hb|exact Hfresh].
  apply (complete_goroot fs lgoroot lgopaths gs R f _ Hclean HR Hf Ef Hfile Hun Hgp Hmod).
Qed.

Theorem complete_gopath_plain pk fs lgoroot lgopaths gs P l f dir base :
  (forall g, In g (get_files gs) -> clean_path g = true) ->
  In f (get_files gs) -> f = P ++ mid_of pk ++ dir ++ [b_slash] ++ base -> ~ In b_slash base ->
  In l lgopaths -> is_file fs (l ++ mid_of pk ++ dir ++ [b_slash] ++ base) = true ->
  not_goroot_captured fs lgoroot (get_files gs) f ->
  gopath_unique fs lgopaths (get_files gs) f P l ->
  (forall X tail, hit fs (l ++ sfx_of pk) f X tail -> X = P ++ sfx_of pk) ->
  not_module_captured fs lgoroot lgopaths (get_files gs) false f ->
  (forall g c, In g gs -> In c (all_calls g) -> RemoteSrcPath c = f -> CLocation c = LocationUnknown) ->
  forall g' c', In g' (snd (guess_paths fs lgoroot lgopaths gs)) -> In c' (all_calls g') ->
    RemoteSrcPath c' = f ->
    LocalSrcPath c' = l ++ mid_of pk ++ dir ++ [b_slash] ++ base /\
    RelSrcPath c' = dir ++ [b_slash] ++ base /\ CImportPath c' = dir /\ CLocation c' = loc_of pk.
Proof.
  intros Hclean Hf Ef Hb Hl Hfile Hgr Hun Hal Hmod Hfresh.
  apply (complete_out_plain fs lgoroot lgopaths gs f _ dir base (loc_of pk)); [|exact Hb|exact Hfresh].
  apply (complete_gopath_gen pk fs lgoroot lgopaths gs P l f _ Hclean Hf Ef Hl Hfile Hgr Hun Hal Hmod).
Qed.

Theorem complete_gomod_plain fs lgoroot lgopaths gs K m f dir base :
  (forall g, In g (get_files gs) -> clean_path g = true) ->
  K <> [] -> K <> s2b "." -> In f (get_files gs) -> f = K ++ s2b "/" ++ dir ++ [b_slash] ++ base ->
  ~ In b_slash base -> module_dir fs K m ->
  (forall K', K' <> [] -> under K' f -> is_module fs K' -> List.length K' <= List.length K) ->
  not_goroot_captured fs lgoroot (get_files gs) f ->
  not_gopath_captured fs lgopaths (get_files gs) f ->
  (forall g c, In g gs -> In c (all_calls g) -> RemoteSrcPath c = f -> CLocation c = LocationUnknown) ->
  forall g' c', In g' (snd (guess_paths fs lgoroot lgopaths gs)) -> In c' (all_calls g') ->
    RemoteSrcPath c' = f ->
    LocalSrcPath c' = f /\ RelSrcPath c' = dir ++ [b_slash] ++ base /\
    CImportPath c' = m ++ [b_slash] ++ dir /\ CLocation c' = GoMod.
Proof.
  intros Hclean HK HKd Hf Ef Hb Hm Hin Hgr Hgp Hfresh g' c' Hg' Hc' Hr.
  destruct (complete_gomod fs lgoroot lgopaths gs K m f _ Hclean HK HKd Hf Ef Hm Hin Hgr Hgp) as [_ H].
  destruct (complete_out fs lgoroot lgopaths gs f f _ (fun _ => mod_import m (dir ++ [b_slash] ++ base)) GoMod H
              g' c' Hg' Hc' Hr) as (R1 & R2 & g & c & Hg & Hc & Ec & R3 & R4).
  split; [exact R1|]. split; [exact R2|]. split.
  - rewrite R3. apply (proj1 (mod_import_spec m _) dir base eq_refl Hb).
  - rewrite R4. unfold classify. rewrite (Hfresh g c Hg Hc Ec). reflexivity.
Qed.

Theorem checkers_sound fs lgoroot lgopaths files :
  (cleanb files = true -> forall g, In g files -> clean_path g = true) /\
  (forall R, goroot_unambiguousb fs lgoroot files R = true -> goroot_unambiguous fs lgoroot files R) /\
  (forall f, not_goroot_capturedb fs lgoroot files f = true -> not_goroot_captured fs lgoroot files f) /\
  (forall f, not_gopath_capturedb fs lgopaths files f = true -> not_gopath_captured fs lgopaths files f) /\
  (forall f P l, gopath_uniqueb fs lgopaths files f P l = true -> gopath_unique fs lgopaths files f P l) /\
  (forall pk l P f, alignedb fs pk l P f = true ->
     forall X tail, hit fs (l ++ sfx_of pk) f X tail -> X = P ++ sfx_of pk) /\
  (forall std f, not_module_capturedb fs lgoroot lgopaths files std f = true ->
     not_module_captured fs lgoroot lgopaths files std f) /\
  (forall K f, innermostb fs K f = true ->
     forall K', K' <> [] -> under K' f -> is_module fs K' -> List.length K' <= List.length K) /\
  (forall f, not_module_rootedb fs files f = true -> not_module_rooted fs files f).
Proof.
  split; [apply cleanb_sound|]. split; [apply goroot_unambiguousb_sound|].
  split; [apply not_goroot_capturedb_sound|]. split; [apply not_gopath_capturedb_sound|].
  split; [apply gopath_uniqueb_sound|]. split; [apply alignedb_sound|].
  split; [apply not_module_capturedb_sound|]. split; [apply innermostb_sound|apply not_module_rootedb_sound].
Qed.
