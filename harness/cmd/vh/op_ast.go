//go:build verif

// op ast (C19): getFuncAST (with matchFuncDecl) + extractArgumentsType through
// the hook stack.VerifFuncTypes, on generated Go files and on files of the
// standard library.  One case per file:
//
//	ast id src lines expect feat names | tree results
//
//	lines   = "l1,l2,..." the lines queried
//	expect  = per line "-" (no expectation) or "<class><pos>:<hex name>": the top-level function whose source extent
//	          (line of the func keyword .. line of the closing brace) contains the line, when exactly one does;
//	          class b: after the line of the func keyword, o: a function written on one line, h: the line of the
//	          func keyword of a longer function, c: a line strictly inside the body of a function LITERAL (only
//	          frames of the literal can carry it: no declaration describes them; "c0:x" outside any function).
//	          Synthetic files: recorded by the generator while it writes the text; library files: from
//	          token.FileSet line numbers of FuncDecl.Pos()/End().
//	feat    = generator features (coverage tags)
//	names   = per line (",") the frame names queried ("|"), each "<kind><hex>": e = the traceback name of the
//	          enclosing declaration ("f", "T.m", "(*T).m", "F[...]", "(*T[...]).m"), l = the name of a function
//	          literal of it ("<e>.func1", "init.func1"), p / n = the names of the previous / next declaration,
//	          z = a name no declaration has, h = a hostile name
//	tree    = what ast.Inspect shows for the parsed file, built with ast.Inspect itself (push on a node, pop on
//	          nil): "(pos child...)", a leaf is the atom "pos", a FuncDecl is "(pos (fd name recv params) child...)",
//	          recv = "-" | "(field...)", field = "(len(Names) texpr)", texpr as in Model/Source.v;  "-" when the
//	          file does not parse
//	results = per line (";") and per name ("|"): "F:<pos>:<hex name>:<types>:<ellipsis>" | "N" | "E:overline" |
//	          "E:parse" | "PANIC"
package main

import (
	"fmt"
	"go/ast"
	"go/parser"
	"go/token"
	"math/rand"
	"os"
	"path/filepath"
	"runtime"
	"sort"
	"strconv"
	"strings"

	"github.com/maruel/panicparse/v2/stack"
)

// ---- the abstraction of the parser's output ----

func texprSx(b *strings.Builder, e ast.Expr) {
	switch t := e.(type) {
	case *ast.Ident:
		b.WriteString("(i " + hexs([]byte(t.Name)) + ")")
	case *ast.SelectorExpr:
		b.WriteString("(s " + hexs([]byte(t.Sel.Name)) + ")")
	case *ast.StarExpr:
		b.WriteString("(p ")
		texprSx(b, t.X)
		b.WriteString(")")
	case *ast.ArrayType:
		b.WriteString("(a ")
		if t.Len == nil {
			b.WriteString("-")
		} else {
			texprSx(b, t.Len)
		}
		b.WriteString(" ")
		texprSx(b, t.Elt)
		b.WriteString(")")
	case *ast.Ellipsis:
		b.WriteString("(e ")
		if t.Elt == nil {
			b.WriteString("-")
		} else {
			texprSx(b, t.Elt)
		}
		b.WriteString(")")
	case *ast.FuncType:
		b.WriteString("f")
	case *ast.InterfaceType:
		b.WriteString("t")
	case *ast.MapType:
		b.WriteString("(m ")
		texprSx(b, t.Key)
		b.WriteString(" ")
		texprSx(b, t.Value)
		b.WriteString(")")
	case *ast.ChanType:
		b.WriteString("(c ")
		texprSx(b, t.Value)
		b.WriteString(")")
	case *ast.BasicLit:
		b.WriteString("(l " + hexs([]byte(t.Value)) + ")")
	case *ast.IndexExpr:
		b.WriteString("(x ")
		texprSx(b, t.X)
		b.WriteString(")")
	case *ast.IndexListExpr:
		b.WriteString("(x ")
		texprSx(b, t.X)
		b.WriteString(")")
	default:
		b.WriteString("o")
	}
}

func fieldsSx(b *strings.Builder, l []*ast.Field) {
	b.WriteString("(")
	for i, f := range l {
		if i != 0 {
			b.WriteString(" ")
		}
		fmt.Fprintf(b, "(%d ", len(f.Names))
		texprSx(b, f.Type)
		b.WriteString(")")
	}
	b.WriteString(")")
}

type tnode struct {
	pos int
	fd  *ast.FuncDecl
	ch  []*tnode
}

func (t *tnode) sx(b *strings.Builder) {
	if t.fd == nil && len(t.ch) == 0 {
		b.WriteString(strconv.Itoa(t.pos))
		return
	}
	b.WriteString("(" + strconv.Itoa(t.pos))
	if t.fd != nil {
		b.WriteString(" (fd " + hexs([]byte(t.fd.Name.Name)) + " ")
		if t.fd.Recv == nil {
			b.WriteString("-")
		} else {
			fieldsSx(b, t.fd.Recv.List)
		}
		b.WriteString(" ")
		if t.fd.Type.Params == nil {
			b.WriteString("()")
		} else {
			fieldsSx(b, t.fd.Type.Params.List)
		}
		b.WriteString(")")
	}
	for _, c := range t.ch {
		b.WriteString(" ")
		c.sx(b)
	}
	b.WriteString(")")
}

// inspectTree records the calls of ast.Inspect's callback: a non-nil node
// opens a tree node under the current one, nil closes it.
func inspectTree(f *ast.File) *tnode {
	var root *tnode
	var st []*tnode
	ast.Inspect(f, func(n ast.Node) bool {
		if n == nil {
			st = st[:len(st)-1]
			return true
		}
		t := &tnode{pos: int(n.Pos())}
		if fd, ok := n.(*ast.FuncDecl); ok {
			t.fd = fd
		}
		if len(st) == 0 {
			root = t
		} else {
			p := st[len(st)-1]
			p.ch = append(p.ch, t)
		}
		st = append(st, t)
		return true
	})
	return root
}

func astOne(src []byte, fn string, line int) (res string) {
	defer func() {
		if e := recover(); e != nil {
			res = "PANIC"
		}
	}()
	found, name, pos, types, ell, err := stack.VerifFuncTypes(src, fn, line)
	if err != nil {
		if strings.Contains(err.Error(), "is over line count of") {
			return "E:overline"
		}
		return "E:parse"
	}
	if !found {
		return "N"
	}
	hx := make([]string, len(types))
	for i, t := range types {
		hx[i] = hexs([]byte(t))
	}
	ts := strings.Join(hx, ",")
	if ts == "" {
		ts = "-"
	}
	return fmt.Sprintf("F:%d:%s:%s:%s", pos, hexs([]byte(name)), ts, b2s(ell))
}

func emitAst(id string, src []byte, lines, expect, feat, names string) {
	tree := "-"
	fset := token.NewFileSet()
	if f, err := parser.ParseFile(fset, "x.go", src, 0); err == nil {
		var b strings.Builder
		inspectTree(f).sx(&b)
		tree = b.String()
	}
	ls, ns := strings.Split(lines, ","), strings.Split(names, ",")
	var res []string
	for i, l := range ls {
		n, _ := strconv.Atoi(l)
		var rr []string
		for _, nm := range strings.Split(ns[i], "|") {
			rr = append(rr, astOne(src, string(unhexs(nm[1:])), n))
		}
		res = append(res, strings.Join(rr, "|"))
	}
	emit("ast", id, hexs(src), lines, expect, feat, names, tree, strings.Join(res, ";"))
}

// ---- frame names ----

// tbName is the name the runtime prints for the declaration (without the
// package): "f", "F[...]", "T.m", "(*T).m", "T[...].m", "(*T[...]).m"
// (checked against go1.23 tracebacks of a compiled program).  ok is false for
// receivers no compilable program has.
func tbName(fd *ast.FuncDecl) (string, bool) {
	if fd.Recv == nil {
		if fd.Type.TypeParams != nil {
			return fd.Name.Name + "[...]", true
		}
		return fd.Name.Name, true
	}
	if len(fd.Recv.List) != 1 {
		return "", false
	}
	t := fd.Recv.List[0].Type
	ptr := false
	if s, ok := t.(*ast.StarExpr); ok {
		ptr, t = true, s.X
	}
	gen := ""
	switch x := t.(type) {
	case *ast.IndexExpr:
		gen, t = "[...]", x.X
	case *ast.IndexListExpr:
		gen, t = "[...]", x.X
	}
	id, ok := t.(*ast.Ident)
	if !ok {
		return "", false
	}
	if ptr {
		return "(*" + id.Name + gen + ")." + fd.Name.Name, true
	}
	return id.Name + gen + "." + fd.Name.Name, true
}

var astHostile = []string{"", ".", "..", "[...]", "(*).m", "(*T.m", "T).m", "a.b.c", "(*", ")", "(*)", "(*).", "main", "init.0", "init.func1", "glob..func1"}

// astNames chooses the frame names queried for every line.
func astNames(r *rand.Rand, src []byte, lines, expect string) string {
	ls, ex := strings.Split(lines, ","), strings.Split(expect, ",")
	fset := token.NewFileSet()
	f, err := parser.ParseFile(fset, "x.go", src, 0)
	var fds []*ast.FuncDecl
	if err == nil {
		for _, d := range f.Decls {
			if fd, ok := d.(*ast.FuncDecl); ok {
				fds = append(fds, fd)
			}
		}
	}
	one := func(kind, nm string) string { return kind + hexs([]byte(nm)) }
	var out []string
	for i, l := range ls {
		n, _ := strconv.Atoi(l)
		var q []string
		k := -1 // the enclosing declaration
		if e := ex[i]; e != "-" && e[0] != 'c' || e != "-" && e[1] != '0' {
			pos, _ := strconv.Atoi(e[1:strings.IndexByte(e, ':')])
			for j, fd := range fds {
				if int(fd.Pos()) == pos {
					k = j
				}
			}
		}
		prev, next := k-1, k+1
		if k < 0 { // between declarations: the nearest ones by line
			prev, next = -1, len(fds)
			for j, fd := range fds {
				if fset.Position(fd.Pos()).Line < n {
					prev = j
				} else if next == len(fds) {
					next = j
				}
			}
		}
		own := ""
		if k >= 0 {
			if nm, ok := tbName(fds[k]); ok {
				own = nm
				q = append(q, one("e", nm))
			}
		}
		if ex[i] != "-" && ex[i][0] == 'c' {
			switch {
			case own != "":
				q = append(q, one("l", own+fmt.Sprintf(".func%d", 1+r.Intn(3))))
			case k < 0:
				q = append(q, one("l", []string{"init.func1", "glob..func1"}[r.Intn(2)]))
			}
		}
		if prev >= 0 && prev < len(fds) {
			if nm, ok := tbName(fds[prev]); ok {
				q = append(q, one("p", nm))
			}
		}
		if next >= 0 && next < len(fds) {
			if nm, ok := tbName(fds[next]); ok {
				q = append(q, one("n", nm))
			}
		}
		q = append(q, one("z", "zzz"))
		if r.Intn(5) == 0 {
			h := astHostile[r.Intn(len(astHostile))]
			if len(fds) > 0 && r.Intn(2) == 0 {
				// built from a real declaration
				fd := fds[r.Intn(len(fds))]
				if k >= 0 && r.Intn(2) == 0 {
					fd = fds[k]
				}
				nm, _ := tbName(fd)
				m := fd.Name.Name
				h = []string{"." + m, m + "[...][...]", "[...]" + nm, "[..[...].]" + m, "(*T." + m, "T)." + m, "(*)." + m,
					nm + "-fm", nm + ".func1", "x." + nm, nm + ".", strings.ReplaceAll(nm, "(*", "("), strings.ReplaceAll(nm, ")", ""),
					strings.ReplaceAll(nm, "[...]", ""), strings.ReplaceAll(nm, ".", "[...]."), "(*" + m + ")." + m, m + "." + m}[r.Intn(17)]
			}
			q = append(q, one("h", h))
		}
		out = append(out, strings.Join(q, "|"))
	}
	return strings.Join(out, ",")
}

// ---- synthetic files ----

type agen struct {
	r    *rand.Rand
	b    strings.Builder
	crlf bool
	line int            // the line the next byte goes to
	exp  map[int]string // line -> expectation, "-" when two functions share the line
	lit  map[int]bool   // lines strictly inside the body of a function literal
	feat map[string]bool
	nfn  int
	nlab int
}

func (g *agen) w(s string) {
	for i := 0; i < len(s); i++ {
		if s[i] == '\n' {
			if g.crlf {
				g.b.WriteByte('\r')
			}
			g.line++
		}
		g.b.WriteByte(s[i])
	}
}

func (g *agen) pick(l ...string) string { return l[g.r.Intn(len(l))] }

// litBody generates the statements of a function literal whose opening line
// has just been written and records their lines.
func (g *agen) litBody(ind string, depth int) {
	from := g.line
	g.stmts(ind, depth)
	for l := from; l < g.line; l++ {
		g.lit[l] = true
	}
}

// litClass turns the expectation of a line inside a function literal into class c.
func litClass(e string) string {
	switch e {
	case "":
		return "c0:x"
	case "-":
		return e
	}
	return "c" + e[1:]
}

var astTypes = []string{
	"int", "string", "bool", "float64", "uint8", "int32", "error", "T", "*T", "**T", "pkg.T", "*pkg.T",
	"[]int", "[]byte", "[]*T", "[][]int", "[]pkg.T", "[4]int", "[N]T", "[pkg.N]*T", "[N + 1]int", "[2][3]int", "[0x10]byte",
	"map[string]int", "map[string][]int", "map[pkg.K]*T", "map[[2]int]bool",
	"chan int", "<-chan int", "chan<- *T", "chan struct{}",
	"func()", "func(int) string", "func(...int)",
	"interface{}", "any", "interface{ M() }", "interface {\n\tM(a int)\n}",
	"struct{}", "struct{ x int }", "struct {\n\ta int\n\tb string\n}", "List[T]", "*List[int]", "pkg.Map[string, int]", "(int)", "*(T)",
	"unsafe.Pointer", "[]interface{}", "[]any", "*[]int", "*map[string]int", "*[4]int", "[]func()", "*struct{}",
}

func (g *agen) params() string {
	np := g.r.Intn(6)
	if np == 0 {
		return ""
	}
	named := g.r.Intn(4) != 0
	var ps []string
	k := 0
	for p := 0; p < np; p++ {
		t := astTypes[g.r.Intn(len(astTypes))]
		if p == np-1 && g.r.Intn(3) == 0 {
			t = "..." + g.pick("int", "string", "*T", "interface{}", "any", "[]int", "pkg.T", "func()", "map[string]int", "List[T]")
			g.feat["variadic"] = true
		}
		if !named {
			ps = append(ps, t)
			g.feat["unnamed"] = true
			continue
		}
		var names []string
		for c := 1 + g.r.Intn(3)/2*g.r.Intn(3); c > 0; c-- {
			if g.r.Intn(8) == 0 {
				names = append(names, "_")
			} else {
				names = append(names, fmt.Sprintf("p%d", k))
			}
			k++
		}
		if len(names) > 1 {
			g.feat["grouped"] = true
		}
		ps = append(ps, strings.Join(names, ", ")+" "+t)
	}
	switch g.r.Intn(6) {
	case 0: // one parameter per line
		g.feat["multiline-sig"] = true
		return "\n\t" + strings.Join(ps, ",\n\t") + ",\n"
	case 1:
		if len(ps) > 1 {
			g.feat["multiline-sig"] = true
			return ps[0] + ",\n\t" + strings.Join(ps[1:], ", ")
		}
	}
	return strings.Join(ps, ", ")
}

func (g *agen) stmts(ind string, depth int) {
	n := 1 + g.r.Intn(4)
	for i := 0; i < n; i++ {
		k := g.r.Intn(15)
		if depth > 2 && k >= 2 && k <= 8 {
			k = 0
		}
		switch k {
		case 0:
			g.w(ind + "mark()\n")
		case 1:
			g.w(ind + "x := 1; y := 2; _, _ = x, y\n")
			g.feat["several-per-line"] = true
		case 2:
			g.feat["closure"] = true
			g.w(ind + "go func(a int, b string) {\n")
			g.litBody(ind+"\t", depth+1)
			g.w(ind + "}(1, \"s\")\n")
		case 3:
			g.feat["closure"] = true
			g.w(ind + "defer func() { recover() }()\n")
		case 4:
			g.feat["closure"] = true
			g.w(ind + "fl := func(s ...string) int {\n")
			g.litBody(ind+"\t", depth+1)
			g.lit[g.line] = true
			g.w(ind + "\treturn 0\n" + ind + "}\n" + ind + "_ = fl\n")
		case 5:
			g.w(ind + "if mark(); true {\n")
			g.stmts(ind+"\t", depth+1)
			g.w(ind + "} else {\n")
			g.stmts(ind+"\t", depth+1)
			g.w(ind + "}\n")
		case 6:
			g.w(ind + "for i := 0; i < 3; i++ {\n")
			g.stmts(ind+"\t", depth+1)
			g.w(ind + "}\n")
		case 7:
			g.w(ind + "switch {\n" + ind + "case true:\n")
			g.stmts(ind+"\t", depth+1)
			g.w(ind + "default:\n" + ind + "}\n")
		case 8:
			g.feat["closure"] = true
			g.w(ind + "var v = map[string]func(int){\n" + ind + "\t\"k\": func(q int) {\n")
			g.litBody(ind+"\t\t", depth+2)
			g.w(ind + "\t},\n" + ind + "}\n" + ind + "_ = v\n")
		case 9:
			g.feat["rawstring"] = true
			g.w(ind + "_ = `raw\nfunc fake(a int) {\n}\n`\n")
		case 10:
			g.feat["blockcomment"] = true
			g.w(ind + "/* comment\n   func notreal(x string) {\n */\n")
		case 11:
			g.w(g.pick("\n", ind+"// func c(a int) {}\n", ind+"mark() // trailing\n"))
		case 12:
			g.w(ind + "_ = []int{\n" + ind + "\t1,\n" + ind + "\t2,\n" + ind + "}\n")
		case 13:
			g.w(ind + "type loc struct {\n" + ind + "\ta int\n" + ind + "}\n")
		default:
			g.nlab++
			g.w(fmt.Sprintf("L%d:\n%sfor {\n%s\tbreak L%d\n%s}\n", g.nlab, ind, ind, g.nlab, ind))
		}
	}
}

// note records that the function (pos, name) spans the lines from..to.
func (g *agen) note(from, to, pos int, name string) {
	for l := from; l <= to; l++ {
		c := "b"
		if l == from {
			c = "h"
			if to == from {
				c = "o"
			}
		}
		if _, dup := g.exp[l]; dup {
			g.exp[l] = "-"
		} else {
			g.exp[l] = fmt.Sprintf("%s%d:%s", c, pos, hexs([]byte(name)))
		}
	}
}

func (g *agen) fn(badRecv bool) {
	if g.r.Intn(3) == 0 {
		g.feat["doc"] = true
		c := g.pick("// doc comment.\n", "// doc comment\n// func old(a string, b int) {\n", "/* doc\n   comment */\n", "//go:noinline\n",
			"// a lone carriage\rreturn is not a line ending\n", "/* nor\rhere\r*/\n")
		if strings.Contains(c, "\r") {
			g.feat["lonecr"] = true
		}
		g.w(c)
	}
	from := g.line
	pos := g.b.Len() + 1
	g.nfn++
	name := fmt.Sprintf("f%d", g.nfn)
	hdr := "func "
	switch k := g.r.Intn(12); {
	case badRecv:
		g.feat["badrecv"] = true
		hdr += g.pick("() ", "(a T, b U) ", "(a *T, b *T) ", "(a T, b *T, c int) ")
	case k < 5:
	case k == 5:
		g.feat["recv-value"] = true
		hdr += g.pick("(t T) ", "(T) ", "(_ T) ", "(t pkg.T) ", "(t List[K]) ", "(t []int) ")
	case k == 6:
		g.feat["recv-multiname"] = true
		hdr += g.pick("(a, b T) ", "(a, b *T) ")
	default:
		g.feat["recv-pointer"] = true
		hdr += g.pick("(t *T) ", "(*T) ", "(_ *T) ", "(t *List[K]) ", "(t *List[K, V]) ", "(t **T) ")
	}
	hdr += name
	if !strings.Contains(hdr, "(") && g.r.Intn(5) == 0 {
		g.feat["generic"] = true
		hdr += g.pick("[T any]", "[K comparable, V any]", "[T interface{ ~int | ~string }]", "[S ~[]E, E any]")
	}
	hdr += "(" + g.params() + ")" + g.pick("", "", " int", " (int, error)", " (n int, err error)", " *T", " func(int) string")
	g.w(hdr)
	switch g.r.Intn(10) {
	case 0:
		g.feat["oneliner"] = true
		g.w(g.pick(" {}\n", " { mark() }\n", " { panic(\"x\") }\n", " { mark(); mark() }\n"))
	case 1:
		g.feat["nobody"] = true
		g.w("\n")
	case 2:
		g.w(" {\n}\n")
	default:
		g.w(" {\n")
		g.stmts("\t", 0)
		g.w("}\n")
	}
	g.note(from, g.line-1, pos, name)
}

func (g *agen) other() {
	g.nfn++
	k := g.nfn
	switch g.r.Intn(9) {
	case 0:
		g.w(fmt.Sprintf("type T%d struct {\n\ta int\n\tf func(x int) string\n}\n", k))
	case 1:
		g.feat["toplevel-funclit"] = true
		g.w(fmt.Sprintf("var g%d = func(y int) {\n", k))
		g.litBody("\t", 1)
		g.w("}\n")
	case 2:
		g.w(fmt.Sprintf("const (\n\tA%d = iota\n\tB%d\n)\n", k, k))
	case 3:
		g.w(fmt.Sprintf("var (\n\tv%d = 1\n\tw%d = []string{\n\t\t\"a\",\n\t}\n)\n", k, k))
	case 4:
		g.w(fmt.Sprintf("type I%d interface {\n\tM(a int) string\n\tN()\n}\n", k))
	case 5:
		g.w("// a comment\n// func fake(a string) {}\n")
	case 6:
		g.w(fmt.Sprintf("type List%d[K comparable, V any] struct {\n\tk K\n\tv V\n}\n", k))
	case 7:
		g.feat["two-funcs-one-line"] = true
		from, p1 := g.line, g.b.Len()+1
		a := fmt.Sprintf("func s%da(a string) {}; ", k)
		g.w(a)
		g.note(from, from, p1, fmt.Sprintf("s%da", k))
		p2 := g.b.Len() + 1
		g.w(fmt.Sprintf("func s%db(b int) { mark() }\n", k))
		g.note(from, from, p2, fmt.Sprintf("s%db", k))
	default:
		g.w(fmt.Sprintf("var x%d = 1\n", k))
	}
}

func genAstFile(r *rand.Rand) (src []byte, lines, expect, feat string) {
	g := &agen{r: r, line: 1, exp: map[int]string{}, lit: map[int]bool{}, feat: map[string]bool{}}
	g.crlf = r.Intn(8) == 0
	if g.crlf {
		g.feat["crlf"] = true
	}
	if r.Intn(4) == 0 {
		g.feat["header"] = true
		g.w(g.pick("//go:build linux && amd64\n\n", "// Copyright 2020. All rights reserved.\n// License.\n\n", "// +build ignore\n\n", "/*\nLicense block\nfunc x() {}\n*/\n\n"))
	}
	if r.Intn(3) == 0 {
		g.w("// Package p is a test.\n")
	}
	g.w("package p\n")
	if r.Intn(2) == 0 {
		g.w("\n")
	}
	if r.Intn(3) != 0 {
		g.w(g.pick("import \"pkg\"\n\n", "import (\n\t\"fmt\"\n\tpkg \"os\"\n\t\"unsafe\"\n)\n\n", "import \"pkg\"; import \"unsafe\"\n"))
	}
	bad := r.Intn(20) == 0
	badAt := -1
	n := r.Intn(9)
	if r.Intn(12) == 0 {
		n = 0
		g.feat["no-decls"] = true
	}
	if bad && n > 0 {
		badAt = r.Intn(n)
	}
	for i := 0; i < n; i++ {
		if r.Intn(4) == 0 {
			g.other()
		} else {
			g.fn(i == badAt)
		}
		if r.Intn(5) != 0 {
			g.w("\n")
		}
	}
	if r.Intn(3) == 0 {
		g.w(g.pick("// trailing comment\n", "\n\n", "var last = 1\n", "// no newline at the end"))
	}
	s := g.b.String()
	if r.Intn(4) == 0 && strings.HasSuffix(s, "\n") {
		g.feat["no-final-newline"] = true
		s = strings.TrimSuffix(strings.TrimSuffix(s, "\n"), "\r")
	}
	if r.Intn(25) == 0 {
		g.feat["parse-error"] = true
		if i := strings.Index(s, "{"); i >= 0 && r.Intn(2) == 0 {
			s = s[:i] + s[i+1:]
		} else {
			s += "\nfunc {{{\n"
		}
	}
	src = []byte(s)
	nl := strings.Count(s, "\n") + 1 // len(lineToByteOffsets) - 1
	var ls, ex []string
	for l := 0; l <= nl+2; l++ {
		ls = append(ls, strconv.Itoa(l))
		e := g.exp[l]
		if g.lit[l] {
			e = litClass(e)
		}
		if e == "" || g.feat["parse-error"] {
			e = "-"
		}
		ex = append(ex, e)
	}
	var fs []string
	for k := range g.feat {
		fs = append(fs, k)
	}
	sort.Strings(fs)
	if len(fs) == 0 {
		fs = []string{"plain"}
	}
	return src, strings.Join(ls, ","), strings.Join(ex, ","), "syn," + strings.Join(fs, ",")
}

// ---- files of the standard library ----

var astStdDirs = []string{
	"strings", "bytes", "sort", "net/http", "fmt", "os", "io", "bufio", "encoding/json", "time", "sync", "strconv", "errors",
	"container/list", "container/heap", "math/big", "text/template", "go/ast", "go/parser", "reflect", "slices", "maps",
	"sync/atomic", "iter", "net/url", "path/filepath", "regexp", "log", "context", "unicode/utf8", "encoding/binary", "cmp",
}

func astStdFiles(r *rand.Rand, n int) []string {
	root := filepath.Join(runtime.GOROOT(), "src")
	var all []string
	for _, d := range astStdDirs {
		ents, err := os.ReadDir(filepath.Join(root, d))
		if err != nil {
			continue
		}
		for _, e := range ents { // ReadDir sorts by name
			nm := e.Name()
			if e.IsDir() || !strings.HasSuffix(nm, ".go") || strings.HasSuffix(nm, "_test.go") {
				continue
			}
			if fi, err := e.Info(); err != nil || fi.Size() > 150<<10 {
				continue
			}
			all = append(all, d+"/"+nm)
		}
	}
	r.Shuffle(len(all), func(a, b int) { all[a], all[b] = all[b], all[a] })
	// a few files that are always wanted (one-line methods, generics, big files)
	want := []string{"sort/sort.go", "strings/strings.go", "bytes/buffer.go", "net/http/header.go", "fmt/print.go", "sync/atomic/type.go", "slices/sort.go"}
	seen := map[string]bool{}
	var out []string
	for _, f := range append(want, all...) {
		if len(out) >= n {
			break
		}
		if seen[f] {
			continue
		}
		if _, err := os.Stat(filepath.Join(root, f)); err != nil {
			continue
		}
		seen[f] = true
		out = append(out, f)
	}
	return out
}

// stdExpect derives the expectation from the FileSet's line table.
func stdExpect(src []byte) (map[int]string, int) {
	fset := token.NewFileSet()
	f, err := parser.ParseFile(fset, "x.go", src, 0)
	exp := map[int]string{}
	if err != nil {
		return exp, 0
	}
	nf := 0
	for _, d := range f.Decls {
		fd, ok := d.(*ast.FuncDecl)
		if !ok {
			continue
		}
		nf++
		from, to := fset.Position(fd.Pos()).Line, fset.Position(fd.End()-1).Line
		for l := from; l <= to; l++ {
			c := "b"
			if l == from {
				c = "h"
				if to == from {
					c = "o"
				}
			}
			if _, dup := exp[l]; dup {
				exp[l] = "-"
			} else {
				exp[l] = fmt.Sprintf("%s%d:%s", c, int(fd.Pos()), hexs([]byte(fd.Name.Name)))
			}
		}
	}
	// lines strictly inside the body of a function literal
	ast.Inspect(f, func(n ast.Node) bool {
		if fl, ok := n.(*ast.FuncLit); ok {
			for l := fset.Position(fl.Body.Lbrace).Line + 1; l < fset.Position(fl.Body.Rbrace).Line; l++ {
				exp[l] = litClass(exp[l])
			}
		}
		return true
	})
	return exp, nf
}

func genAstStd(r *rand.Rand, rel, tier string) (src []byte, lines, expect, feat string, ok bool) {
	src, err := os.ReadFile(filepath.Join(runtime.GOROOT(), "src", rel))
	if err != nil {
		return nil, "", "", "", false
	}
	exp, _ := stdExpect(src)
	nl := strings.Count(string(src), "\n") + 1
	pick := map[int]bool{0: true, 1: true, 2: true, nl - 1: true, nl: true, nl + 1: true, nl + 2: true}
	if tier == "thorough" || nl <= 120 {
		for l := 0; l <= nl+2; l++ {
			pick[l] = true
		}
	} else {
		for k := 0; k < 60; k++ {
			pick[r.Intn(nl+1)] = true
		}
		// the neighbourhood of some func keywords and closing braces
		var fl []int
		for l, e := range exp {
			if e[0] == 'h' || e[0] == 'o' {
				fl = append(fl, l)
			}
		}
		sort.Ints(fl)
		for k := 0; k < 12 && len(fl) > 0; k++ {
			l := fl[r.Intn(len(fl))]
			for d := -2; d <= 1; d++ {
				if l+d >= 0 {
					pick[l+d] = true
				}
			}
		}
	}
	var ll []int
	for l := range pick {
		if l >= 0 {
			ll = append(ll, l)
		}
	}
	sort.Ints(ll)
	var ls, ex []string
	for _, l := range ll {
		ls = append(ls, strconv.Itoa(l))
		e := exp[l]
		if e == "" {
			e = "-"
		}
		ex = append(ex, e)
	}
	return src, strings.Join(ls, ","), strings.Join(ex, ","), "std", true
}

func opAst(r *rand.Rand, n int, tier string) {
	nStd := n / 2
	if nStd > 30 {
		nStd = 30
	}
	std := astStdFiles(r, nStd)
	si := 0
	for i := 0; i < n; i++ {
		if i%2 == 1 && si < len(std) {
			rel := std[si]
			si++
			if src, lines, expect, feat, ok := genAstStd(r, rel, tier); ok {
				emitAst(fmt.Sprintf("ast-%d-std:%s", i, rel), src, lines, expect, feat, astNames(r, src, lines, expect))
				continue
			}
		}
		src, lines, expect, feat := genAstFile(r)
		emitAst(fmt.Sprintf("ast-%d", i), src, lines, expect, feat, astNames(r, src, lines, expect))
	}
}

func init() {
	replayers["ast"] = func(id string, in []string) { emitAst(id, unhexs(in[0]), in[1], in[2], in[3], in[4]) }
}
