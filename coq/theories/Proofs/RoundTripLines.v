(* Proofs/RoundTripLines.v — C01, lines: every kind of line written by the
   printer of Spec/Printer.v is recognised by the matcher the scanner applies
   to it, with the submatches the printer put in (and is NOT recognised by the
   matchers the scanner tries before). *)
From PP Require Import Base.Bytes Base.BytesX Base.Num Base.GoResult Model.Types Model.Lines
  Model.FuncInit Model.ParseArgs Spec.Printer Proofs.RoundTripNum.

Local Open Scope N_scope.

(* ------------------------------------------------------------------ *)
(* 0. generic facts on byte strings                                    *)
(* ------------------------------------------------------------------ *)

Lemma no_byte_app : forall c a b, no_byte c (a ++ b) = no_byte c a && no_byte c b.
Proof.
  intros c a b. unfold no_byte. rewrite existsb_app, negb_orb. reflexivity.
Qed.

Lemma no_byte_cons : forall c x s, no_byte c (x :: s) = negb (N.eqb c x) && no_byte c s.
Proof. intros c x s. unfold no_byte. cbn [existsb]. rewrite negb_orb. reflexivity. Qed.

Lemma no_byte_forallb : forall c s, no_byte c s = forallb (fun x => negb (N.eqb c x)) s.
Proof.
  intros c s. induction s as [|x s IH]; [reflexivity|].
  rewrite no_byte_cons, IH. reflexivity.
Qed.

Lemma forallb_impl : forall (p q : N -> bool) s,
  (forall x, p x = true -> q x = true) -> forallb p s = true -> forallb q s = true.
Proof.
  intros p q s Hpq. induction s as [|x s IH]; [reflexivity|]. cbn [forallb].
  intros H. apply andb_true_iff in H as [H1 H2]. rewrite (Hpq _ H1), (IH H2). reflexivity.
Qed.

Lemma forallb_no_byte : forall p c s,
  p c = false -> forallb p s = true -> no_byte c s = true.
Proof.
  intros p c s Hc H. rewrite no_byte_forallb. revert H. apply forallb_impl.
  intros x Hx. destruct (N.eqb c x) eqn:E; [|reflexivity].
  apply N.eqb_eq in E. subst x. congruence.
Qed.

Lemma no_byte_In : forall c s, no_byte c s = true -> ~ In c s.
Proof.
  intros c s H Hin. unfold no_byte in H. apply negb_true_iff in H.
  assert (existsb (N.eqb c) s = true).
  { apply existsb_exists. exists c. split; [exact Hin|apply N.eqb_refl]. }
  congruence.
Qed.

(* what [span] returns when the run and its end are known *)
Definition hd_fails (p : N -> bool) (t : bytes) : Prop :=
  match t with [] => True | x :: _ => p x = false end.

Lemma span_app : forall p a t, forallb p a = true -> hd_fails p t -> span p (a ++ t) = (a, t).
Proof.
  intros p a t Ha Ht. induction a as [|x a IH].
  - cbn [app]. destruct t as [|y t]; [reflexivity|]. cbn [span]. cbn in Ht. rewrite Ht. reflexivity.
  - cbn [forallb] in Ha. apply andb_true_iff in Ha as [Hx Ha].
    cbn [app span]. rewrite Hx, (IH Ha). reflexivity.
Qed.

Lemma span_spec : forall p s a b, span p s = (a, b) -> s = a ++ b /\ forallb p a = true.
Proof.
  intros p s. induction s as [|x s IH]; intros a b H.
  - cbn in H. injection H as <- <-. split; reflexivity.
  - cbn [span] in H. destruct (p x) eqn:Hx.
    + destruct (span p s) as [a' b'] eqn:E. injection H as <- <-.
      destruct (IH a' b' eq_refl) as [-> Hf]. split; [reflexivity|].
      cbn [forallb]. rewrite Hx, Hf. reflexivity.
    + injection H as <- <-. split; reflexivity.
Qed.

Lemma strip_prefix_app : forall lit s, strip_prefix lit (lit ++ s) = Some s.
Proof.
  intros lit s. induction lit as [|y lit IH]; [reflexivity|].
  cbn [app strip_prefix]. rewrite N.eqb_refl. exact IH.
Qed.

Lemma strip_prefix_spec : forall lit s t, strip_prefix lit s = Some t -> s = lit ++ t.
Proof.
  induction lit as [|y lit IH]; intros s t H.
  - cbn in H. injection H as <-. reflexivity.
  - destruct s as [|x s]; [discriminate|]. cbn [strip_prefix] in H.
    destruct (N.eqb x y) eqn:E; [|discriminate]. apply N.eqb_eq in E. subst y.
    cbn [app]. f_equal. apply IH. exact H.
Qed.

Lemma has_prefix_app : forall p s, has_prefix (p ++ s) p = true.
Proof.
  intros p s. induction p as [|y p IH]; [destruct s; reflexivity|].
  cbn [app has_prefix]. rewrite N.eqb_refl. exact IH.
Qed.

Lemma skipn_app_exact : forall (A : Type) (a b : list A), skipn (List.length a) (a ++ b) = b.
Proof. intros A a b. induction a as [|x a IH]; [reflexivity|]. cbn [List.length app skipn]. exact IH. Qed.

Lemma firstn_app_exact' : forall (A : Type) (a b : list A), firstn (List.length a) (a ++ b) = a.
Proof.
  intros A a b. induction a as [|x a IH]; [destruct b; reflexivity|].
  cbn [List.length app firstn]. f_equal. exact IH.
Qed.

Lemma has_suffix_app : forall a p, has_suffix (a ++ p) p = true.
Proof.
  intros a p. unfold has_suffix. rewrite app_length.
  replace (List.length a + List.length p - List.length p)%nat with (List.length a) by lia.
  rewrite skipn_app_exact, beq_refl.
  replace (Nat.leb (List.length p) (List.length a + List.length p)) with true
    by (symmetry; apply Nat.leb_le; lia).
  reflexivity.
Qed.

Lemma strip_suffix_app : forall a p, strip_suffix p (a ++ p) = Some a.
Proof.
  intros a p. unfold strip_suffix. rewrite has_suffix_app, app_length.
  replace (List.length a + List.length p - List.length p)%nat with (List.length a) by lia.
  rewrite firstn_app_exact'. reflexivity.
Qed.

Lemma has_suffix_spec : forall s p, has_suffix s p = true ->
  s = firstn (List.length s - List.length p) s ++ p.
Proof.
  intros s p H. unfold has_suffix in H. apply andb_true_iff in H as [_ H].
  apply beq_eq in H.
  pose proof (firstn_skipn (List.length s - List.length p) s) as E. rewrite H in E.
  symmetry. exact E.
Qed.

Lemma last_opt_app_cons : forall (A : Type) (l : list A) x, last_opt (l ++ [x]) = Some x.
Proof.
  intros A l x. induction l as [|y l IH]; [reflexivity|].
  cbn [app]. destruct (l ++ [x]) eqn:E; [destruct l; discriminate|]. exact IH.
Qed.

Lemma removelast_app1 : forall (A : Type) (l : list A) x, removelast (l ++ [x]) = l.
Proof. intros A l x. rewrite removelast_app by discriminate. cbn. apply app_nil_r. Qed.

(* the last occurrence of c is where the c-free tail begins *)
Lemma last_index_byte_app : forall a c b,
  no_byte c b = true -> last_index_byte (a ++ c :: b) c = Some (List.length a).
Proof.
  intros a c b Hb.
  assert (Hnone : last_index_byte b c = None).
  { induction b as [|x b IH]; [reflexivity|]. rewrite no_byte_cons in Hb.
    apply andb_true_iff in Hb as [Hx Hb]. cbn [last_index_byte]. rewrite (IH Hb).
    apply negb_true_iff in Hx. rewrite N.eqb_sym, Hx. reflexivity. }
  induction a as [|x a IH].
  - cbn [app last_index_byte List.length]. rewrite Hnone, N.eqb_refl. reflexivity.
  - cbn [app last_index_byte List.length]. rewrite IH. reflexivity.
Qed.

Lemma last_index_byte_none : forall c b, no_byte c b = true -> last_index_byte b c = None.
Proof.
  intros c b Hb. induction b as [|x b IH]; [reflexivity|]. rewrite no_byte_cons in Hb.
  apply andb_true_iff in Hb as [Hx Hb]. cbn [last_index_byte]. rewrite (IH Hb).
  apply negb_true_iff in Hx. rewrite N.eqb_sym, Hx. reflexivity.
Qed.

(* ------------------------------------------------------------------ *)
(* 1. digits and hex digits                                            *)
(* ------------------------------------------------------------------ *)

Lemma dec_no_byte : forall c n, is_digit c = false -> no_byte c (N_to_dec n) = true.
Proof. intros c n Hc. apply (forallb_no_byte is_digit); [exact Hc|apply N_to_dec_digits]. Qed.

Lemma hex_no_byte : forall c n, is_lower_hex c = false -> no_byte c (N_to_hex false n) = true.
Proof. intros c n Hc. apply (forallb_no_byte is_lower_hex); [exact Hc|apply N_to_hex_lower]. Qed.

Lemma dec_nonempty_b : forall n, nonempty (N_to_dec n) = true.
Proof. intros n. pose proof (N_to_dec_nonempty n) as H. destruct (N_to_dec n); [congruence|reflexivity]. Qed.

Lemma hex_nonempty_b : forall n, nonempty (N_to_hex false n) = true.
Proof. intros n. pose proof (N_to_hex_nonempty n) as H. destruct (N_to_hex false n); [congruence|reflexivity]. Qed.

(* ------------------------------------------------------------------ *)
(* 2. the header line                                                  *)
(* ------------------------------------------------------------------ *)

Lemma wf_opaque_spec : forall s, wf_opaque s = true ->
  nonempty s = true /\ forallb is_nonspace s = true.
Proof.
  intros s H. unfold wf_opaque in H.
  apply andb_true_iff in H as [H H3]. apply andb_true_iff in H as [H1 H2].
  split; [destruct s; [discriminate|reflexivity]|].
  rewrite no_byte_forallb in H2. revert H2. apply forallb_impl.
  intros x Hx. unfold is_nonspace. rewrite N.eqb_sym. exact Hx.
Qed.

Lemma match_bracket_print : forall text,
  text <> [] -> no_byte 93 text = true ->
  match_bracket (s2b " [" ++ text ++ s2b "]:") = Some text.
Proof.
  intros text Hne H93. unfold match_bracket. rewrite strip_prefix_app.
  rewrite (span_app (fun c => negb (N.eqb c 93)) text (s2b "]:")).
  - destruct text; [congruence|]. reflexivity.
  - rewrite no_byte_forallb in H93. revert H93. apply forallb_impl.
    intros x Hx. rewrite N.eqb_sym. exact Hx.
  - reflexivity.
Qed.

Lemma match_gp_print : forall a rest,
  wf_annot (Some a) = true -> hd_fails is_nonspace rest ->
  strip_prefix (s2b " mp=") rest = None ->
  match_gp (print_annot (Some a) ++ rest) = Some rest.
Proof.
  intros [gp m mp] rest Hwf Hrest Hnomp. cbn [wf_annot an_gp an_m an_mp] in Hwf.
  apply andb_true_iff in Hwf as [Hwf Hmp]. apply andb_true_iff in Hwf as [Hgp Hm].
  apply wf_opaque_spec in Hgp as [Hgp1 Hgp2]. apply wf_opaque_spec in Hm as [Hm1 Hm2].
  unfold match_gp, print_annot. cbn [an_gp an_m an_mp].
  rewrite <- !app_assoc. rewrite strip_prefix_app.
  rewrite (span_app is_nonspace gp); [|exact Hgp2|reflexivity].
  rewrite Hgp1. cbn [negb]. rewrite strip_prefix_app.
  destruct mp as [z|].
  - apply wf_opaque_spec in Hmp as [Hz1 Hz2].
    rewrite <- !app_assoc.
    rewrite (span_app is_nonspace m); [|exact Hm2|reflexivity].
    rewrite Hm1. cbn [negb]. rewrite strip_prefix_app.
    rewrite (span_app is_nonspace z); [|exact Hz2|exact Hrest].
    rewrite Hz1. reflexivity.
  - cbn [app].
    rewrite (span_app is_nonspace m); [|exact Hm2|exact Hrest].
    rewrite Hm1. cbn [negb]. rewrite Hnomp. reflexivity.
Qed.

Theorem match_routine_header_print : forall ind id annot text,
  forallb is_space_tab ind = true -> wf_annot annot = true ->
  text <> [] -> no_byte 93 text = true ->
  match_routine_header
    (ind ++ s2b "goroutine " ++ N_to_dec id ++ print_annot annot ++ s2b " [" ++ text ++ s2b "]:")
  = Some (ind, N_to_dec id, text).
Proof.
  intros ind id annot text Hind Hannot Hne H93. unfold match_routine_header.
  rewrite (span_app is_space_tab ind); [|exact Hind|reflexivity].
  rewrite strip_prefix_app.
  assert (Hhd : hd_fails is_digit (print_annot annot ++ s2b " [" ++ text ++ s2b "]:")).
  { destruct annot as [a|]; reflexivity. }
  rewrite (span_app is_digit (N_to_dec id)); [|apply N_to_dec_digits|exact Hhd].
  rewrite dec_nonempty_b. cbn [negb].
  destruct annot as [a|].
  - rewrite match_gp_print; [|exact Hannot|reflexivity|reflexivity].
    rewrite match_bracket_print; [reflexivity|exact Hne|exact H93].
  - cbn [print_annot app].
    replace (match_gp (s2b " [" ++ text ++ s2b "]:")) with (@None bytes) by reflexivity.
    rewrite match_bracket_print; [reflexivity|exact Hne|exact H93].
Qed.

(* ------------------------------------------------------------------ *)
(* 3. the function line                                                *)
(* ------------------------------------------------------------------ *)

(* the bytes that printed arguments are made of *)
Definition args_byte (c : N) : bool :=
  is_lower_hex c || (c =? 120) || (c =? 63) || (c =? 95) || (c =? 46) ||
  (c =? 123) || (c =? 125) || (c =? 44) || (c =? 32).

Lemma forallb_join : forall p l sep,
  forallb p sep = true -> forallb (forallb p) l = true -> forallb p (join l sep) = true.
Proof.
  intros p l sep Hsep. induction l as [|x l IH]; [reflexivity|].
  cbn [forallb]. intros H. apply andb_true_iff in H as [Hx Hl].
  destruct l as [|y l]; [exact Hx|].
  change (join (x :: y :: l) sep) with (x ++ sep ++ join (y :: l) sep).
  rewrite !forallb_app, Hx, Hsep, (IH Hl). reflexivity.
Qed.

Lemma hex0x_args_byte : forall v, forallb args_byte (hex0x v) = true.
Proof.
  intros v. unfold hex0x. rewrite forallb_app. apply andb_true_iff. split; [reflexivity|].
  generalize (N_to_hex_lower v). apply forallb_impl.
  intros x Hx. unfold args_byte. rewrite Hx. reflexivity.
Qed.

(* nested induction on argument trees *)
Fixpoint p_arg_ind' (P : p_arg -> Prop)
  (Hval : forall v i, P (PVal v i)) (Htl : P PTooLarge)
  (Hagg : forall fs el, Forall P fs -> P (PAgg fs el)) (a : p_arg) : P a :=
  match a with
  | PVal v i => Hval v i
  | PTooLarge => Htl
  | PAgg fs el =>
      Hagg fs el ((fix go (l : list p_arg) : Forall P l :=
                     match l with
                     | [] => Forall_nil P
                     | x :: l' => Forall_cons x (p_arg_ind' P Hval Htl Hagg x) (go l')
                     end) fs)
  end.

Lemma items_args_byte : forall (l : list p_arg) (el : bool),
  Forall (fun a => forallb args_byte (print_arg a) = true) l ->
  forallb (forallb args_byte) (map print_arg l ++ (if el then [s2b "..."] else [])) = true.
Proof.
  intros l el H. rewrite forallb_app. apply andb_true_iff. split; [|destruct el; reflexivity].
  induction H as [|x l Hx Hl IH]; [reflexivity|]. cbn [map forallb]. rewrite Hx, IH. reflexivity.
Qed.

Lemma print_arg_args_byte : forall a, forallb args_byte (print_arg a) = true.
Proof.
  induction a as [v i| |fs el IH] using p_arg_ind'.
  - cbn [print_arg]. rewrite forallb_app, hex0x_args_byte. destruct i; reflexivity.
  - reflexivity.
  - cbn [print_arg]. rewrite !forallb_app. apply andb_true_iff. split; [reflexivity|].
    apply andb_true_iff. split; [|reflexivity].
    apply forallb_join; [reflexivity|]. apply items_args_byte. exact IH.
Qed.

Lemma print_args_args_byte : forall args el, forallb args_byte (print_args args el) = true.
Proof.
  intros args el. unfold print_args. apply forallb_join; [reflexivity|].
  apply items_args_byte. apply Forall_forall. intros a _. apply print_arg_args_byte.
Qed.

Lemma print_args_no_byte : forall c args el, args_byte c = false -> no_byte c (print_args args el) = true.
Proof. intros c args el Hc. apply (forallb_no_byte args_byte); [exact Hc|apply print_args_args_byte]. Qed.

(* reFunc splits at the last '(' : the argument text has none *)
Theorem match_func_print : forall sym argtext,
  sym <> [] -> no_byte 40 argtext = true ->
  match_func (sym ++ s2b "(" ++ argtext ++ s2b ")") = Some (sym, argtext).
Proof.
  intros sym argtext Hne H40. unfold match_func.
  replace (sym ++ s2b "(" ++ argtext ++ s2b ")") with ((sym ++ 40 :: argtext) ++ [41])
    by (rewrite <- app_assoc; reflexivity).
  rewrite last_opt_app_cons, removelast_app1.
  rewrite (last_index_byte_app sym 40 argtext H40).
  destruct (List.length sym) as [|n] eqn:El; [destruct sym; [congruence|discriminate]|].
  rewrite <- El, firstn_app_exact'.
  replace (sym ++ 40 :: argtext) with ((sym ++ [40]) ++ argtext)
    by (rewrite <- app_assoc; reflexivity).
  replace (S (List.length sym)) with (List.length (sym ++ [40]))
    by (rewrite app_length; cbn [List.length]; lia).
  rewrite skipn_app_exact. reflexivity.
Qed.

Theorem match_func_print_line : forall s args el,
  sym_raw s <> [] ->
  match_func (print_func_line s args el) = Some (sym_raw s, print_args args el).
Proof.
  intros s args el Hne. unfold print_func_line. apply match_func_print; [exact Hne|].
  apply print_args_no_byte. reflexivity.
Qed.

(* ------------------------------------------------------------------ *)
(* 4. the file line                                                    *)
(* ------------------------------------------------------------------ *)

Lemma match_hexfield_print : forall lit v rest,
  hd_fails is_lower_hex rest ->
  match_hexfield (lit ++ s2b "0x") (lit ++ hex0x v ++ rest) = Some rest.
Proof.
  intros lit v rest Hrest. unfold match_hexfield, hex0x.
  replace (lit ++ (s2b "0x" ++ N_to_hex false v) ++ rest)
    with ((lit ++ s2b "0x") ++ N_to_hex false v ++ rest)
    by (rewrite <- !app_assoc; reflexivity).
  rewrite strip_prefix_app.
  rewrite (span_app is_lower_hex); [|apply N_to_hex_lower|exact Hrest].
  rewrite hex_nonempty_b. reflexivity.
Qed.

Lemma match_file_fp_print : forall regs, match_file_fp (print_regs regs) = true.
Proof.
  intros [[fp sp pc]|]; [|reflexivity].
  unfold print_regs. cbn [r_fp r_sp r_pc].
  unfold match_file_fp.
  change (s2b " fp=" ++ hex0x fp ++ s2b " sp=" ++ hex0x sp ++
          match pc with Some pc0 => s2b " pc=" ++ hex0x pc0 | None => [] end)
    with (32 :: (s2b "fp=" ++ hex0x fp ++ s2b " sp=" ++ hex0x sp ++
          match pc with Some pc0 => s2b " pc=" ++ hex0x pc0 | None => [] end)).
  cbv iota.
  change (32 :: (s2b "fp=" ++ hex0x fp ++ s2b " sp=" ++ hex0x sp ++
          match pc with Some pc0 => s2b " pc=" ++ hex0x pc0 | None => [] end))
    with (s2b " fp=" ++ hex0x fp ++ (s2b " sp=" ++ hex0x sp ++
          match pc with Some pc0 => s2b " pc=" ++ hex0x pc0 | None => [] end)).
  change (s2b " fp=0x") with (s2b " fp=" ++ s2b "0x").
  rewrite match_hexfield_print by reflexivity.
  change (s2b " sp=0x") with (s2b " sp=" ++ s2b "0x").
  rewrite match_hexfield_print by (destruct pc; reflexivity).
  destruct pc as [pc|]; [|reflexivity].
  pose proof (match_hexfield_print (s2b " pc=") pc [] I) as E. rewrite app_nil_r in E.
  change (s2b " pc=" ++ hex0x pc) with (32 :: (s2b "pc=" ++ hex0x pc)) in *. cbv iota.
  change (s2b " pc=0x") with (s2b " pc=" ++ s2b "0x"). rewrite E. reflexivity.
Qed.

Definition file_tail (line : N) (off : option N) (regs : option p_regs) : bytes :=
  s2b ":" ++ N_to_dec line ++ print_off off ++ print_regs regs.

Lemma print_regs_hd : forall p regs, p 32 = false -> hd_fails p (print_regs regs).
Proof. intros p [r|] Hp; [exact Hp|exact I]. Qed.

Lemma match_file_tail_print : forall line off regs,
  match_file_tail (file_tail line off regs) = Some (N_to_dec line).
Proof.
  intros line off regs. unfold file_tail, match_file_tail.
  change (s2b ":" ++ N_to_dec line ++ print_off off ++ print_regs regs)
    with (58 :: (N_to_dec line ++ print_off off ++ print_regs regs)).
  cbv iota.
  assert (Hhd : hd_fails is_digit (print_off off ++ print_regs regs)).
  { destruct off as [o|]; [reflexivity|]. cbn [print_off app]. apply print_regs_hd. reflexivity. }
  rewrite (span_app is_digit); [|apply N_to_dec_digits|exact Hhd].
  rewrite dec_nonempty_b. cbn [negb].
  destruct off as [o|].
  - unfold print_off.
    replace (match_file_fp ((s2b " +" ++ hex0x o) ++ print_regs regs)) with false by reflexivity.
    rewrite <- app_assoc.
    change (s2b " +0x") with (s2b " +" ++ s2b "0x").
    rewrite match_hexfield_print by (apply print_regs_hd; reflexivity).
    rewrite match_file_fp_print. reflexivity.
  - cbn [print_off app]. rewrite match_file_fp_print. reflexivity.
Qed.

Lemma hex0x_no_dot : forall v, no_byte 46 (hex0x v) = true.
Proof.
  intros v. unfold hex0x. rewrite no_byte_app. apply andb_true_iff. split; [reflexivity|].
  apply hex_no_byte. reflexivity.
Qed.

Lemma file_tail_no_dot : forall line off regs, no_byte 46 (file_tail line off regs) = true.
Proof.
  intros line off regs. unfold file_tail. rewrite !no_byte_app.
  apply andb_true_iff. split; [reflexivity|].
  apply andb_true_iff. split; [apply dec_no_byte; reflexivity|].
  apply andb_true_iff. split.
  - destruct off as [o|]; [|reflexivity]. unfold print_off. rewrite no_byte_app, hex0x_no_dot. reflexivity.
  - destruct regs as [[fp sp pc]|]; [|reflexivity]. unfold print_regs. cbn [r_fp r_sp r_pc].
    rewrite !no_byte_app, !hex0x_no_dot.
    destruct pc as [pc|]; [rewrite no_byte_app, hex0x_no_dot|]; reflexivity.
Qed.

(* a text without '.' matches the tail grammar or not, but no extension starts in it *)
Lemma ext_go_nodot : forall s pre, no_byte 46 s = true -> match_file_ext_go pre s = None.
Proof.
  induction s as [|x s IH]; intros pre H; [reflexivity|].
  rewrite no_byte_cons in H. apply andb_true_iff in H as [Hx Hs].
  cbn [match_file_ext_go]. rewrite (IH _ Hs).
  destruct pre as [|y pre]; [reflexivity|].
  apply negb_true_iff, N.eqb_neq in Hx.
  unfold ext_len. destruct x as [|p]; [reflexivity|].
  destruct (N.eq_dec (N.pos p) 46) as [E|E]; [congruence|].
  do 6 (destruct p as [p|p|]; try reflexivity); congruence.
Qed.

Definition is_ext (e : bytes) : Prop := e = s2b ".go" \/ e = s2b ".c" \/ e = s2b ".s".

Lemma ext_go_found : forall stem e tl ds pre,
  is_ext e -> match_file_tail tl = Some ds -> no_byte 46 tl = true ->
  (pre <> [] \/ stem <> []) ->
  match_file_ext_go pre (stem ++ e ++ tl) = Some (rev pre ++ stem ++ e, ds).
Proof.
  induction stem as [|x stem IH]; intros e tl ds pre He Htl Hnd Hne.
  - destruct Hne as [Hne|Hne]; [|congruence].
    destruct pre as [|y pre]; [congruence|].
    cbn [app]. destruct He as [-> | [-> | ->]].
    + change (s2b ".go" ++ tl) with (46 :: (s2b "go" ++ tl)). cbn [match_file_ext_go].
      rewrite ext_go_nodot by (rewrite no_byte_app, Hnd; reflexivity).
      change (ext_len (46 :: s2b "go" ++ tl)) with (Some 3%nat). cbv iota.
      change (skipn 3 (46 :: s2b "go" ++ tl)) with tl. rewrite Htl. reflexivity.
    + change (s2b ".c" ++ tl) with (46 :: (s2b "c" ++ tl)). cbn [match_file_ext_go].
      rewrite ext_go_nodot by (rewrite no_byte_app, Hnd; reflexivity).
      change (ext_len (46 :: s2b "c" ++ tl)) with (Some 2%nat). cbv iota.
      change (skipn 2 (46 :: s2b "c" ++ tl)) with tl. rewrite Htl. reflexivity.
    + change (s2b ".s" ++ tl) with (46 :: (s2b "s" ++ tl)). cbn [match_file_ext_go].
      rewrite ext_go_nodot by (rewrite no_byte_app, Hnd; reflexivity).
      change (ext_len (46 :: s2b "s" ++ tl)) with (Some 2%nat). cbv iota.
      change (skipn 2 (46 :: s2b "s" ++ tl)) with tl. rewrite Htl. reflexivity.
  - cbn [app match_file_ext_go].
    rewrite (IH e tl ds (x :: pre) He Htl Hnd) by (left; discriminate).
    cbn [rev]. rewrite <- app_assoc. reflexivity.
Qed.

(* what the tail grammar accepts contains no '.' *)
Lemma match_hexfield_spec : forall lit s r, match_hexfield lit s = Some r ->
  exists h, s = lit ++ h ++ r /\ forallb is_lower_hex h = true.
Proof.
  intros lit s r H. unfold match_hexfield in H.
  destruct (strip_prefix lit s) as [s1|] eqn:E1; [|discriminate].
  destruct (span is_lower_hex s1) as [h s2] eqn:E2.
  destruct (nonempty h); [|discriminate]. injection H as <-.
  apply strip_prefix_spec in E1. apply span_spec in E2 as [E2 Hh].
  exists h. subst s s1. split; [reflexivity|exact Hh].
Qed.

Lemma hexfield_no_dot : forall lit s r, no_byte 46 lit = true ->
  match_hexfield lit s = Some r -> no_byte 46 s = no_byte 46 r.
Proof.
  intros lit s r Hlit H. destruct (match_hexfield_spec _ _ _ H) as (h & -> & Hh).
  rewrite !no_byte_app, Hlit, (forallb_no_byte is_lower_hex 46 h eq_refl Hh). reflexivity.
Qed.

Lemma match_file_fp_nodot : forall s, match_file_fp s = true -> no_byte 46 s = true.
Proof.
  intros s H. unfold match_file_fp in H. destruct s as [|x s']; [reflexivity|].
  destruct (match_hexfield (s2b " fp=0x") (x :: s')) as [s1|] eqn:E1; [|discriminate].
  destruct (match_hexfield (s2b " sp=0x") s1) as [s2|] eqn:E2; [|discriminate].
  rewrite (hexfield_no_dot (s2b " fp=0x") _ _ eq_refl E1), (hexfield_no_dot (s2b " sp=0x") _ _ eq_refl E2).
  destruct s2 as [|y s2']; [reflexivity|].
  destruct (match_hexfield (s2b " pc=0x") (y :: s2')) as [s3|] eqn:E3; [|discriminate].
  rewrite (hexfield_no_dot (s2b " pc=0x") _ _ eq_refl E3).
  destruct s3; [reflexivity|discriminate].
Qed.

Definition match_file_tail_body (s1 : bytes) : option bytes :=
  let '(ds, s2) := span is_digit s1 in
  if negb (nonempty ds) then None else
  if match_file_fp s2 then Some ds else
  match match_hexfield (s2b " +0x") s2 with
  | Some s3 => if match_file_fp s3 then Some ds else None
  | None => None
  end.

Lemma match_file_tail_cons : forall c s1,
  match_file_tail (c :: s1) = if c =? 58 then match_file_tail_body s1 else None.
Proof.
  intros c s1. destruct c as [|p]; [reflexivity|].
  do 6 (destruct p as [p|p|]; try reflexivity).
Qed.

Lemma match_file_tail_nodot : forall s ds, match_file_tail s = Some ds -> no_byte 46 s = true.
Proof.
  intros s ds H. destruct s as [|c s1]; [discriminate|].
  rewrite match_file_tail_cons in H. destruct (c =? 58) eqn:Ec; [|discriminate].
  apply N.eqb_eq in Ec. subst c. rewrite no_byte_cons. cbn [N.eqb Pos.eqb negb andb].
  unfold match_file_tail_body in H.
  destruct (span is_digit s1) as [d s2] eqn:E. apply span_spec in E as [-> Hd].
  rewrite no_byte_app, (forallb_no_byte is_digit 46 d eq_refl Hd). cbn [andb].
  destruct (negb (nonempty d)); [discriminate|].
  destruct (match_file_fp s2) eqn:Efp; [apply match_file_fp_nodot; exact Efp|].
  destruct (match_hexfield (s2b " +0x") s2) as [s3|] eqn:E3; [|discriminate].
  destruct (match_file_fp s3) eqn:Efp3; [|discriminate].
  rewrite (hexfield_no_dot (s2b " +0x") _ _ eq_refl E3). apply match_file_fp_nodot. exact Efp3.
Qed.

(* the shape of a well-formed file name *)
Definition file_shape (f : bytes) : Prop :=
  f = s2b "??" \/ f = s2b "<autogenerated>" \/
  exists stem e, stem <> [] /\ is_ext e /\ f = stem ++ e.

Lemma has_ext_spec : forall f e, has_ext f e = true -> exists stem, stem <> [] /\ f = stem ++ e.
Proof.
  intros f e H. unfold has_ext in H. apply andb_true_iff in H as [H1 H2].
  apply Nat.ltb_lt in H2. pose proof (has_suffix_spec _ _ H1) as E.
  exists (firstn (List.length f - List.length e) f). split; [|exact E].
  intros C. apply (f_equal (@List.length N)) in C. rewrite firstn_length in C. cbn in C. lia.
Qed.

Lemma wf_file_spec : forall fi f, wf_file fi f = true ->
  no_byte LF f = true /\ file_shape f /\ f <> [] /\
  (match fi with FITab => True | FISpaces _ => hd_fails (N.eqb 32) f end).
Proof.
  intros fi f H. unfold wf_file in H.
  apply andb_true_iff in H as [H H3]. apply andb_true_iff in H as [H1 H2].
  assert (Hshape : file_shape f).
  { apply orb_true_iff in H2 as [H2|H2]; [|right; right; destruct (has_ext_spec _ _ H2) as (st & Hst & E);
      exists st, (s2b ".s"); unfold is_ext; tauto].
    apply orb_true_iff in H2 as [H2|H2]; [|right; right; destruct (has_ext_spec _ _ H2) as (st & Hst & E);
      exists st, (s2b ".c"); unfold is_ext; tauto].
    apply orb_true_iff in H2 as [H2|H2]; [|right; right; destruct (has_ext_spec _ _ H2) as (st & Hst & E);
      exists st, (s2b ".go"); unfold is_ext; tauto].
    apply orb_true_iff in H2 as [H2|H2]; apply beq_eq in H2; [left|right; left]; exact H2. }
  assert (Hne : f <> []).
  { destruct Hshape as [-> | [-> | (st & e & Hst & _ & ->)]]; try discriminate.
    destruct st; [congruence|discriminate]. }
  split; [exact H1|]. split; [exact Hshape|]. split; [exact Hne|].
  destruct fi as [|k]; [exact I|]. apply negb_true_iff in H3.
  destruct f as [|x f]; [exact I|]. cbn [has_prefix] in H3. cbn [hd_fails]. rewrite N.eqb_sym.
  destruct (N.eqb x 32); [|reflexivity]. destruct f; discriminate.
Qed.

Lemma is_ext_has_dot : forall e, is_ext e -> no_byte 46 e = false.
Proof. intros e [-> | [-> | ->]]; reflexivity. Qed.

Lemma match_file_body_print : forall f tl ds,
  file_shape f -> match_file_tail tl = Some ds -> no_byte 46 tl = true ->
  match_file_body (f ++ tl) = Some (f, ds).
Proof.
  intros f tl ds Hshape Htl Hnd. unfold match_file_body.
  destruct Hshape as [-> | [-> | (stem & e & Hst & He & ->)]].
  - rewrite strip_prefix_app, Htl. reflexivity.
  - replace (strip_prefix (s2b "??") (s2b "<autogenerated>" ++ tl)) with (@None bytes) by reflexivity.
    rewrite strip_prefix_app, Htl. reflexivity.
  - assert (Halt : forall lit, no_byte 46 lit = true ->
              match strip_prefix lit ((stem ++ e) ++ tl) with
              | Some t => match match_file_tail t with Some ds0 => Some (lit, ds0) | None => None end
              | None => None
              end = None).
    { intros lit Hlit. destruct (strip_prefix lit ((stem ++ e) ++ tl)) as [t|] eqn:E; [|reflexivity].
      destruct (match_file_tail t) as [ds0|] eqn:Et; [|reflexivity].
      apply match_file_tail_nodot in Et. apply strip_prefix_spec in E.
      apply (f_equal (no_byte 46)) in E. rewrite !no_byte_app in E.
      rewrite (is_ext_has_dot e He), Hlit, Et in E.
      rewrite andb_false_r in E. discriminate. }
    rewrite (Halt (s2b "??") eq_refl), (Halt (s2b "<autogenerated>") eq_refl).
    rewrite <- app_assoc.
    rewrite (ext_go_found stem e tl ds [] He Htl Hnd) by (right; exact Hst).
    cbn [rev app]. reflexivity.
Qed.

Lemma span_repeat_32 : forall k r, hd_fails (N.eqb 32) r ->
  span (N.eqb 32) (repeat 32 k ++ r) = (repeat 32 k, r).
Proof.
  intros k r Hr. apply span_app; [|exact Hr].
  induction k as [|k IH]; [reflexivity|]. cbn [repeat forallb]. rewrite IH. reflexivity.
Qed.

(* (d) reFile on a printed file line *)
Theorem match_file_print : forall fi file line off regs,
  wf_file fi file = true -> (match fi with FISpaces k => (0 < k)%nat | FITab => True end) ->
  match_file (print_file_line fi file line off regs) = Some (file, N_to_dec line).
Proof.
  intros fi file line off regs Hwf Hk.
  destruct (wf_file_spec _ _ Hwf) as (_ & Hshape & Hne & Hsp).
  unfold print_file_line. fold (file_tail line off regs).
  pose proof (match_file_body_print file _ _ Hshape (match_file_tail_print line off regs)
                (file_tail_no_dot line off regs)) as Hbody.
  destruct fi as [|k].
  - cbn [print_findent app match_file]. exact Hbody.
  - destruct k as [|k]; [lia|]. cbn [print_findent].
    assert (Hspan : span (N.eqb 32) (repeat 32 (S k) ++ file ++ file_tail line off regs)
                    = (repeat 32 (S k), file ++ file_tail line off regs)).
    { apply span_repeat_32. destruct file as [|x file]; [congruence|]. exact Hsp. }
    unfold match_file. cbn [repeat app] in *. rewrite Hspan.
    cbn [List.length match_file_spaces]. rewrite Hbody. reflexivity.
Qed.

(* Call.init on a non-empty file name is expCall *)
Lemma call_init_call_of : forall f a ip file line,
  file <> [] ->
  call_init (mkCall f a [] 0 [] [] [] [] ip LocationUnknown) file (Z.of_N line) = call_of f a file line.
Proof.
  intros f a ip file line Hne. unfold call_init, call_of, b_slash.
  destruct file as [|x file]; [congruence|].
  cbn [RemoteSrcPath SrcName DirSrc CLocation CFunc CArgs LocalSrcPath RelSrcPath].
  destruct (last_index_byte (x :: file) 47) as [i|]; [|reflexivity].
  destruct (last_index_byte (firstn i (x :: file)) 47) as [j|]; reflexivity.
Qed.

Theorem parse_file_print : forall fi f a ip file line off regs,
  wf_file fi file = true -> (match fi with FISpaces k => (0 < k)%nat | FITab => True end) ->
  wf_num line = true ->
  parse_file (mkCall f a [] 0 [] [] [] [] ip LocationUnknown) (print_file_line fi file line off regs)
  = Some (call_of f a file line, None).
Proof.
  intros fi f a ip file line off regs Hwf Hk Hline. unfold parse_file.
  rewrite (match_file_print fi file line off regs Hwf Hk), (atou_N_to_dec_wf line Hline).
  rewrite call_init_call_of; [reflexivity|].
  destruct (wf_file_spec _ _ Hwf) as (_ & _ & Hne & _). exact Hne.
Qed.

(* ------------------------------------------------------------------ *)
(* 5. the other lines                                                  *)
(* ------------------------------------------------------------------ *)

Theorem match_created_print : forall r, r <> [] ->
  match_created (s2b "created by " ++ r) = Some r.
Proof.
  intros r Hne. unfold match_created. rewrite strip_prefix_app.
  destruct r; [congruence|reflexivity].
Qed.

Theorem match_unavail_print : forall fi,
  (match fi with FISpaces k => (0 < k)%nat | FITab => True end) ->
  match_unavail (print_findent fi ++ unavailable_text) = true.
Proof.
  intros [|k] Hk; [reflexivity|].
  destruct k as [|k]; [lia|]. cbn [print_findent].
  assert (Hspan : span (N.eqb 32) (repeat 32 (S k) ++ unavailable_text ++ [])
                  = (repeat 32 (S k), unavailable_text ++ [])).
  { apply span_repeat_32. reflexivity. }
  rewrite app_nil_r in Hspan.
  unfold match_unavail. cbn [repeat app] in *. rewrite Hspan. reflexivity.
Qed.

Theorem is_frames_elided_print : forall e, is_frames_elided (print_elide e) = true.
Proof.
  intros [|n]; [reflexivity|]. unfold is_frames_elided, print_elide.
  apply orb_true_iff. right.
  rewrite has_prefix_app. rewrite app_assoc, has_suffix_app. reflexivity.
Qed.

Lemma match_created_elide : forall e, match_created (print_elide e) = None.
Proof. intros [|n]; reflexivity. Qed.

(* ------------------------------------------------------------------ *)
(* 6. symbols on a line: no blank, no line break                       *)
(* ------------------------------------------------------------------ *)

Definition nosp (c : N) : bool := negb ((c =? 9) || (c =? 10) || (c =? 13) || (c =? 32)).

Lemma hexd_nosp : forall d, d < 16 -> nosp (hexd d) = true.
Proof. intros d H. apply lt16_cases in H. each16 H. Qed.

Lemma ptp_nosp : forall p, forallb (fun c => c <? 256) p = true -> forallb nosp (path_to_prefix p) = true.
Proof.
  induction p as [|c p IH]; intros H; [reflexivity|].
  cbn [forallb] in H. apply andb_true_iff in H as [Hc Hp]. apply N.ltb_lt in Hc.
  cbn [path_to_prefix]. rewrite forallb_app, (IH Hp), andb_true_r.
  destruct (must_escape c) eqn:Hesc.
  - cbn [orb forallb]. rewrite !hexd_nosp; [reflexivity|apply N.mod_lt; lia|].
    apply N.div_lt_upper_bound; lia.
  - cbn [orb]. assert (Hc32 : nosp c = true).
    { unfold must_escape in Hesc. apply orb_false_iff in Hesc as [Hesc _].
      apply orb_false_iff in Hesc as [Hesc _]. apply orb_false_iff in Hesc as [Hesc _].
      apply N.leb_gt in Hesc. unfold nosp.
      replace (c =? 9) with false by (symmetry; apply N.eqb_neq; lia).
      replace (c =? 10) with false by (symmetry; apply N.eqb_neq; lia).
      replace (c =? 13) with false by (symmetry; apply N.eqb_neq; lia).
      replace (c =? 32) with false by (symmetry; apply N.eqb_neq; lia). reflexivity. }
    destruct ((c =? 46) && negb (has_slash p)) eqn:Hdot.
    + cbn [forallb]. rewrite !hexd_nosp; [reflexivity|apply N.mod_lt; lia|].
      apply N.div_lt_upper_bound; lia.
    + cbn [forallb]. rewrite Hc32. reflexivity.
Qed.

Lemma name_nosp : forall n, wf_name n = true -> forallb nosp n = true.
Proof.
  intros n. unfold wf_name. apply forallb_impl. intros x Hx.
  unfold name_byte_ok in Hx. unfold nosp.
  apply negb_true_iff in Hx. apply negb_true_iff.
  apply orb_false_iff in Hx as [Hx _]. apply orb_false_iff in Hx as [Hx _]. exact Hx.
Qed.

Lemma sym_raw_nosp : forall s, wf_sym s = true -> forallb nosp (sym_raw s) = true.
Proof.
  intros [p n|n] H; cbn [wf_sym sym_raw] in *.
  - apply andb_true_iff in H as [Hp Hn].
    rewrite !forallb_app, (ptp_nosp p Hp), (name_nosp n Hn). reflexivity.
  - apply andb_true_iff in H as [Hn _]. apply name_nosp. exact Hn.
Qed.

Lemma sym_raw_nonempty : forall s, wf_sym s = true -> sym_raw s <> [].
Proof.
  intros [p n|n] H; cbn [wf_sym sym_raw] in *.
  - intros C. apply app_eq_nil in C as [_ C]. discriminate.
  - apply andb_true_iff in H as [_ Hn]. destruct n; [discriminate|discriminate].
Qed.

Lemma nosp_no_byte : forall c s, nosp c = false -> forallb nosp s = true -> no_byte c s = true.
Proof. intros c s. apply forallb_no_byte. Qed.

(* a line that does not begin with a tab or a space is not the
   "stack unavailable" line *)
Lemma match_unavail_head : forall x t, nosp x = true -> match_unavail (x :: t) = false.
Proof.
  intros x t Hx. destruct x as [|p]; [reflexivity|].
  do 6 (try destruct p as [p|p|]; try reflexivity; try discriminate).
Qed.

(* "<word> ..." is not a prefix of a blank-free text followed by '(' *)
Lemma strip_prefix_blocked : forall a b r t,
  no_byte 40 a = true -> no_byte 32 r = true ->
  strip_prefix (a ++ 32 :: b) (r ++ 40 :: t) = None.
Proof.
  induction a as [|y a IH]; intros b r t Ha Hr.
  - cbn [app]. destruct r as [|x r]; [reflexivity|].
    rewrite no_byte_cons in Hr. apply andb_true_iff in Hr as [Hx _].
    cbn [app strip_prefix]. apply negb_true_iff in Hx. rewrite N.eqb_sym, Hx. reflexivity.
  - rewrite no_byte_cons in Ha. apply andb_true_iff in Ha as [Hy Ha].
    destruct r as [|x r].
    + cbn [app strip_prefix]. apply negb_true_iff in Hy. rewrite Hy. reflexivity.
    + rewrite no_byte_cons in Hr. apply andb_true_iff in Hr as [_ Hr].
      cbn [app strip_prefix]. destruct (N.eqb x y); [|reflexivity]. apply IH; assumption.
Qed.

Lemma match_created_func_line : forall s args el,
  wf_sym s = true -> match_created (print_func_line s args el) = None.
Proof.
  intros s args el Hwf. unfold match_created, print_func_line.
  change (s2b "created by ") with (s2b "created" ++ 32 :: s2b "by ").
  change (s2b "(" ++ print_args args el ++ s2b ")") with (40 :: (print_args args el ++ s2b ")")).
  rewrite strip_prefix_blocked; [reflexivity|reflexivity|].
  apply nosp_no_byte; [reflexivity|apply sym_raw_nosp; exact Hwf].
Qed.

Lemma match_unavail_func_line : forall s args el,
  wf_sym s = true -> match_unavail (print_func_line s args el) = false.
Proof.
  intros s args el Hwf. unfold print_func_line.
  pose proof (sym_raw_nosp s Hwf) as Hns. pose proof (sym_raw_nonempty s Hwf) as Hne.
  destruct (sym_raw s) as [|x r]; [congruence|].
  cbn [forallb] in Hns. apply andb_true_iff in Hns as [Hx _].
  cbn [app]. apply match_unavail_head. exact Hx.
Qed.

(* a line ending with ')' is not the "frames elided" marker *)
Lemma is_frames_elided_rparen : forall body, is_frames_elided (body ++ [41]) = false.
Proof.
  intros body. unfold is_frames_elided. apply orb_false_iff. split.
  - apply beq_neq. intros E.
    change (s2b "...additional frames elided...") with (s2b "...additional frames elided.." ++ [46]) in E.
    apply app_inj_tail in E as [_ E]. discriminate.
  - destruct (has_suffix (body ++ [41]) (s2b " frames elided...")) eqn:Hs; [|apply andb_false_r].
    apply has_suffix_spec in Hs.
    change (s2b " frames elided...") with (s2b " frames elided.." ++ [46]) in Hs.
    rewrite app_assoc in Hs. apply app_inj_tail in Hs as [_ E]. discriminate.
Qed.

Lemma is_frames_elided_func_line : forall s args el, is_frames_elided (print_func_line s args el) = false.
Proof.
  intros s args el. unfold print_func_line.
  replace (sym_raw s ++ s2b "(" ++ print_args args el ++ s2b ")")
    with ((sym_raw s ++ s2b "(" ++ print_args args el) ++ [41])
    by (rewrite <- !app_assoc; reflexivity).
  apply is_frames_elided_rparen.
Qed.

(* the "created by" line of a creator *)
Lemma in_goroutine_text_nosp_last : forall gid, no_byte LF (in_goroutine_text gid) = true.
Proof.
  intros [n|]; [|reflexivity]. unfold in_goroutine_text.
  rewrite no_byte_app. apply andb_true_iff. split; [reflexivity|]. apply dec_no_byte. reflexivity.
Qed.
