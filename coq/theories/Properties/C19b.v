(* Properties/C19b.v — C19, the part Model/Augment.v took as given: which
   function declaration getFuncAST selects for a traceback line and which type
   names extractArgumentsType computes from it (Model/Source.v), and the
   composition with augment_call.  Statements only.

   Reading guide ("inside a function" as the code defines it).  Let off be
   lineToByteOffset[l], the byte offset of the first byte of line l, and let
   positions be token.Pos values (byte offset + 1).  On a file as go/parser
   produces it (wf_file) getFuncAST returns
       the LAST top-level FuncDecl whose func keyword has Pos < off,
       provided some node of the file has Pos >= off;  nothing otherwise.
   (C19_select_spec.)  So a line is attributed to declaration k from the line
   AFTER the one holding its func keyword up to and including the line on
   which the next declaration starts (C19_select_enclosing), the line of the
   func keyword itself belongs to the previous FuncDecl
   (C19_func_keyword_line_selects_previous, C19_ex_one_line_func_refuted),
   everything up to the first declaration following a function -- var / type
   declarations with function literals included -- belongs to that function
   (C19_ex_toplevel_funclit_refuted), function literals never count
   (FuncLit is not FuncDecl), and the lines after the last node of the last
   declaration select nothing (C19_select_last). *)
From PP Require Import Base.Bytes Base.BytesX Base.Num Base.GoResult Model.Types Model.UI Model.Augment Model.Source Spec.Abi.
From PP Require Import Proofs.AugmentProofs Proofs.SourceProofs.
From Coq Require Import String.

(* ---- totality ---- *)

(* extractArgumentsType panics exactly when the receiver list does not have
   one field ("Expect only one receiver") *)
Theorem C19_extract_panics_iff : forall d,
  (exists m, extract_arguments_type d = Panic m) <-> exists l, fd_recv d = Some l /\ List.length l <> 1.
Proof. exact SourceProofs.extract_panics_iff. Qed.
Print Assumptions C19_extract_panics_iff.

(* getFuncAST itself has no failing operation (the index l is in range after
   the length test); with one receiver field per method -- fd_recv = None or
   Some [x], what compilable sources have -- the whole analysis returns *)
Theorem C19_source_total : forall offsets root l,
  Forall (fun x => recv_wf (snd x) = true) (funcdecls root) ->
  exists r, source_types offsets root l = Ok r.
Proof. exact SourceProofs.source_total. Qed.
Print Assumptions C19_source_total.

(* and a panic is always that one: a selected declaration of the file whose
   receiver list is empty or has several fields *)
Theorem C19_source_panic_only_bad_receiver : forall offsets root l m,
  source_types offsets root l = Panic m ->
  exists p d recv, In (p, d) (funcdecls root) /\ fd_recv d = Some recv /\ List.length recv <> 1.
Proof. exact SourceProofs.source_panic_only_bad_receiver. Qed.
Print Assumptions C19_source_panic_only_bad_receiver.

(* ---- the line is beyond the file ---- *)
Theorem C19_overline : forall offsets root l,
  source_types offsets root l = Ok SrcErr <-> List.length offsets <= l.
Proof. exact SourceProofs.source_overline_iff. Qed.
Print Assumptions C19_overline.

(* len(lineToByteOffsets(src)) = 2 + number of line feeds: the error is raised
   from line (number of LF) + 2 on; nothing is selected, the frame stays as it was *)
Theorem C19_overline_src : forall src root l,
  source_types (line_offsets src) root l = Ok SrcErr <-> 2 + count_byte src LF <= l.
Proof.
  intros src root l. rewrite SourceProofs.source_overline_iff, SourceProofs.line_offsets_length. reflexivity.
Qed.
Print Assumptions C19_overline_src.

(* every offset after the two leading zeros is the byte after a line feed *)
Theorem C19_line_offsets_after_lf : forall src k off,
  nth_error (line_offsets src) (S (S k)) = Some off ->
  (0 < off)%N /\ (off <= N.of_nat (List.length src))%N /\ nth_error src (N.to_nat off - 1) = Some LF.
Proof. exact SourceProofs.line_offsets_lf. Qed.
Print Assumptions C19_line_offsets_after_lf.

(* the comparison of a Pos (offset + 1) with an offset: same answer as the
   comparison of the node's offset, unless the node starts on a line feed *)
Theorem C19_pos_off_by_one_harmless : forall src l off b c,
  nth_error (line_offsets src) l = Some off ->
  nth_error src (N.to_nat b) = Some c -> c <> LF ->
  N.leb off (b + 1) = N.leb off b.
Proof. exact SourceProofs.pos_off_by_one_harmless. Qed.
Print Assumptions C19_pos_off_by_one_harmless.

(* ---- what is selected ---- *)

(* the complete characterisation on well-positioned files *)
Theorem C19_select_spec : forall off root,
  wf_file root = true -> get_func_ast_at off root = select_spec off root.
Proof. exact SourceProofs.get_func_ast_spec. Qed.
Print Assumptions C19_select_spec.

(* whatever is selected is a FuncDecl node of the file whose func keyword
   lies before the line (any tree) *)
Theorem C19_selected_is_member : forall off root p d,
  get_func_ast_at off root = AstFound p d -> In (p, d) (funcdecls root) /\ (p < off)%N.
Proof. exact SourceProofs.selected_is_member. Qed.
Print Assumptions C19_selected_is_member.

(* the line starts after the func keyword of declaration k and not after the
   start of the next declaration: exactly k *)
Theorem C19_select_enclosing : forall offsets l off p0 pre pk fd ch nxt post,
  nth_error offsets l = Some off ->
  wf_file (Node p0 KOther (pre ++ Node pk (KFuncDecl fd) ch :: nxt :: post)) = true ->
  (pk < off)%N -> (off <= node_pos nxt)%N ->
  get_func_ast offsets (Node p0 KOther (pre ++ Node pk (KFuncDecl fd) ch :: nxt :: post)) l = AstFound pk fd.
Proof.
  intros offsets l off p0 pre pk fd ch nxt post Hoff Hwf Hlt Hle.
  unfold get_func_ast. rewrite Hoff. apply SourceProofs.select_enclosing; assumption.
Qed.
Print Assumptions C19_select_enclosing.

(* in particular the line that holds the func keyword of the NEXT function
   still selects the previous one *)
Theorem C19_func_keyword_line_selects_previous : forall off p0 pre pj fj chj pk fk chk post,
  wf_file (Node p0 KOther (pre ++ Node pj (KFuncDecl fj) chj :: Node pk (KFuncDecl fk) chk :: post)) = true ->
  (pj < off)%N -> (off <= pk)%N ->
  get_func_ast_at off (Node p0 KOther (pre ++ Node pj (KFuncDecl fj) chj :: Node pk (KFuncDecl fk) chk :: post)) =
  AstFound pj fj.
Proof.
  intros off p0 pre pj fj chj pk fk chk post Hwf Hlt Hle.
  apply SourceProofs.select_enclosing; assumption.
Qed.
Print Assumptions C19_func_keyword_line_selects_previous.

(* the last declaration of the file: selected only while one of its nodes is
   at or after the line start; the closing lines select nothing *)
Theorem C19_select_last : forall off p0 pre pk fd ch,
  wf_file (Node p0 KOther (pre ++ [Node pk (KFuncDecl fd) ch])) = true ->
  (pk < off)%N ->
  get_func_ast_at off (Node p0 KOther (pre ++ [Node pk (KFuncDecl fd) ch])) =
  if exists_ge_list off ch then AstFound pk fd else AstNone.
Proof. exact SourceProofs.select_last. Qed.
Print Assumptions C19_select_last.

(* a line that starts before every func keyword selects nothing (any tree) *)
Theorem C19_select_none_before_first : forall off root,
  Forall (fun x => (off <= fst x)%N) (funcdecls root) -> get_func_ast_at off root = AstNone.
Proof. exact SourceProofs.select_none_before_first. Qed.
Print Assumptions C19_select_none_before_first.

(* ---- the type list ---- *)

(* one entry per declared name (one for an unnamed field), preceded by the
   receiver when it is a pointer; the flag is that of the last field; each
   entry is what fieldToType yields for one of the fields; a variadic
   signature has at least one entry (the hypothesis of C19_total) *)
Theorem C19_types_shape : forall d types ell,
  extract_arguments_type d = Ok (types, ell) ->
  types = flat_map field_types (arg_fields d) /\
  List.length types = list_sum (map mult (arg_fields d)) /\
  ell = match last_opt (arg_fields d) with Some f => is_ellipsis (f_type f) | None => false end /\
  ell = match last_opt (fd_params d) with Some f => is_ellipsis (f_type f) | None => false end /\
  (ell = true -> types <> []) /\
  Forall (fun t => exists f, In f (arg_fields d) /\ t = fst (field_to_type (f_type f))) types.
Proof. exact SourceProofs.types_shape. Qed.
Print Assumptions C19_types_shape.

(* extractArgumentsType followed by augmentCall never panics, whatever the
   declaration and the argument words *)
Theorem C19_extract_then_augment_total : forall f32 f64 d types ell a,
  extract_arguments_type d = Ok (types, ell) ->
  exists r, augment_call f32 f64 types ell a = Ok r.
Proof. exact SourceProofs.extract_then_augment_total. Qed.
Print Assumptions C19_extract_then_augment_total.

(* C19_truthful with the type list COMPUTED from the declaration: a function
   (or value-receiver method) whose fields are written with the types of the
   supported kinds renders every parameter value truthfully *)
Theorem C19_types_compose : forall f32 f64 isptr d ps,
  (fd_recv d = None \/ exists r, fd_recv d = Some [r] /\ is_star (f_type r) = false) ->
  params_match (fd_params d) ps ->
  forallb wf_param ps = true ->
  exists types ell,
    extract_arguments_type d = Ok (types, ell) /\
    augment_call f32 f64 types ell (args_of_words isptr (flat_map encode ps)) = Ok (map (show f32 f64) ps).
Proof. exact SourceProofs.types_compose. Qed.
Print Assumptions C19_types_compose.

Theorem C19_types_compose_ptr_receiver : forall f32 f64 isptr d n x recv ps,
  fd_recv d = Some [mkField n (TStar x)] -> n <= 1 ->
  params_match (fd_params d) ps ->
  word_ok recv = true -> forallb wf_param ps = true ->
  exists types ell,
    extract_arguments_type d = Ok (types, ell) /\
    augment_call f32 f64 types ell (args_of_words isptr (recv :: flat_map encode ps)) =
    Ok (((s2b "*" ++ Source.type_name x) ++ s2b "(" ++ hex0x recv ++ s2b ")") :: map (show f32 f64) ps).
Proof. exact SourceProofs.types_compose_ptr_receiver. Qed.
Print Assumptions C19_types_compose_ptr_receiver.

(* ---- examples: a file as op ast abstracts it (go/parser's own output) ---- *)
Definition ln (s : string) : bytes := s2b s ++ [LF].
Definition tb (s : string) : bytes := 9%N :: s2b s ++ [LF].
Definition ex_src : bytes :=
  ln "package p" ++ ln "" ++
  ln "func a(s string) {" ++ tb "mark()" ++ ln "}" ++ ln "" ++
  ln "func (t *T) b(x, y int, rest ...string) { panic(x) }" ++ ln "" ++
  ln "var g = func(q int) {" ++ tb "mark()" ++ ln "}" ++ ln "" ++
  ln "func c(m map[string]int, _ [4]pkg.T) {" ++ tb "mark()" ++ ln "}".

Definition ex_a := mkFuncDecl (s2b "a") None [mkField 1 (TIdent (s2b "string"))].
Definition ex_b := mkFuncDecl (s2b "b") (Some [mkField 1 (TStar (TIdent (s2b "T")))])
                              [mkField 2 (TIdent (s2b "int")); mkField 1 (TEllipsis (Some (TIdent (s2b "string"))))].
Definition ex_c := mkFuncDecl (s2b "c") None
                              [mkField 1 (TMap (TIdent (s2b "string")) (TIdent (s2b "int")));
                               mkField 1 (TArray (Some (TBasicLit (s2b "4"))) (TSelector (s2b "T")))].

Local Open Scope N_scope.
Definition ex_tree : node :=
  Node 1 KOther
    [Node 9 KOther [];
     Node 12 (KFuncDecl ex_a)
       [Node 17 KOther [];
        Node 12 KOther [Node 18 KOther [Node 19 KOther [Node 19 KOther []; Node 21 KOther []]]];
        Node 29 KOther [Node 32 KOther [Node 32 KOther [Node 32 KOther []]]]];
     Node 42 (KFuncDecl ex_b)
       [Node 47 KOther [Node 48 KOther [Node 48 KOther []; Node 50 KOther [Node 51 KOther []]]];
        Node 54 KOther [];
        Node 42 KOther
          [Node 55 KOther
             [Node 56 KOther [Node 56 KOther []; Node 59 KOther []; Node 61 KOther []];
              Node 66 KOther [Node 66 KOther []; Node 71 KOther [Node 74 KOther []]]]];
        Node 82 KOther [Node 84 KOther [Node 84 KOther [Node 84 KOther []; Node 90 KOther []]]]];
     Node 96 KOther
       [Node 100 KOther
          [Node 100 KOther [];
           Node 104 KOther
             [Node 104 KOther [Node 108 KOther [Node 109 KOther [Node 109 KOther []; Node 111 KOther []]]];
              Node 116 KOther [Node 119 KOther [Node 119 KOther [Node 119 KOther []]]]]]];
     Node 129 (KFuncDecl ex_c)
       [Node 134 KOther [];
        Node 129 KOther
          [Node 135 KOther
             [Node 136 KOther [Node 136 KOther []; Node 138 KOther [Node 142 KOther []; Node 149 KOther []]];
              Node 154 KOther
                [Node 154 KOther [];
                 Node 156 KOther [Node 157 KOther []; Node 159 KOther [Node 159 KOther []; Node 163 KOther []]]]]];
        Node 166 KOther [Node 169 KOther [Node 169 KOther [Node 169 KOther []]]]]].

Example C19_ex_offsets :
  line_offsets ex_src = [0; 0; 10; 11; 30; 38; 40; 41; 94; 95; 117; 125; 127; 128; 167; 175; 177].
Proof. vm_compute. reflexivity. Qed.

Example C19_ex_wf : wf_file ex_tree = true.
Proof. vm_compute. reflexivity. Qed.
Local Close Scope N_scope.

(* lines 0..18 of the file, exactly what stack.VerifFuncTypes returns *)
Definition ex_res_a := SrcTypes 12 (s2b "a") [s2b "string"] false.
Definition ex_res_b := SrcTypes 42 (s2b "b") (map s2b ["*T"; "int"; "int"; "string"]%string) true.
Definition ex_res_c := SrcTypes 129 (s2b "c") (map s2b ["map[string]int"; "[4]T"]%string) false.
Example C19_ex_all_lines :
  map (source_types (line_offsets ex_src) ex_tree) (seq 0 19) =
  map Ok [SrcNone; SrcNone; SrcNone; SrcNone;             (* 0-2, and 3: the line of "func a" *)
          ex_res_a; ex_res_a; ex_res_a;                    (* 4-6: body of a, closing brace, blank line *)
          ex_res_a;                                        (* 7: the one-line method b is written here *)
          ex_res_b;                                        (* 8: blank *)
          ex_res_b; ex_res_b; ex_res_b;                    (* 9-11: var g = func(q int) {...} *)
          ex_res_b;                                        (* 12: blank *)
          ex_res_b;                                        (* 13: the line of "func c" *)
          ex_res_c;                                        (* 14: body of c *)
          SrcNone;                                         (* 15: closing brace of the last declaration *)
          SrcNone;                                         (* 16: the empty line after the final LF *)
          SrcErr; SrcErr].                                 (* 17, 18: over the line count of 16 *)
Proof. vm_compute. reflexivity. Qed.

(* "the function written on line l is the one selected" is FALSE for a
   function written on one line: line 7 holds all of b and selects a, whose
   types would be used to render b's arguments *)
Example C19_ex_one_line_func_refuted :
  nth_error (line_offsets ex_src) 7 = Some 41%N /\
  node_pos (Node 42 (KFuncDecl ex_b) []) = 42%N /\       (* b's func keyword is the first byte of line 7 *)
  get_func_ast (line_offsets ex_src) ex_tree 7 = AstFound 12 ex_a.
Proof. vm_compute. repeat split; reflexivity. Qed.

(* a function literal of a top-level var declaration: line 10 is inside
   "var g = func(q int) {" and selects the method declared before it *)
Example C19_ex_toplevel_funclit_refuted :
  get_func_ast (line_offsets ex_src) ex_tree 10 = AstFound 42 ex_b.
Proof. vm_compute. reflexivity. Qed.

(* the hypotheses of C19_select_enclosing are satisfiable: line 5 in a *)
Example C19_ex_select_enclosing :
  exists pre nxt post ch, ex_tree = Node 1 KOther (pre ++ Node 12 (KFuncDecl ex_a) ch :: nxt :: post) /\
    nth_error (line_offsets ex_src) 5 = Some 38%N /\ (12 < 38)%N /\ (38 <= node_pos nxt)%N.
Proof.
  eexists [_], _, _, _. split; [reflexivity|]. vm_compute. repeat split; discriminate.
Qed.

(* a receiver list without field parses (go/parser accepts "func () m() {}")
   and makes extractArgumentsType panic; so does a list of two *)
Example C19_ex_empty_receiver_panics :
  extract_arguments_type (mkFuncDecl (s2b "m") (Some []) []) =
  Panic "Expect only one receiver; please fix panicparse's code".
Proof. reflexivity. Qed.
Example C19_ex_two_receivers_panic :
  exists m, extract_arguments_type
    (mkFuncDecl (s2b "m") (Some [mkField 1 (TIdent (s2b "T")); mkField 1 (TIdent (s2b "U"))]) []) = Panic m.
Proof. eexists. reflexivity. Qed.
(* "func (a, b *T) m(x int)": ONE receiver field with two names: no panic, the receiver type is listed twice *)
Example C19_ex_two_receiver_names :
  extract_arguments_type
    (mkFuncDecl (s2b "m") (Some [mkField 2 (TStar (TIdent (s2b "T")))]) [mkField 1 (TIdent (s2b "int"))]) =
  Ok (map s2b ["*T"; "*T"; "int"]%string, false).
Proof. vm_compute. reflexivity. Qed.

(* the names fieldToType produces *)
Example C19_ex_field_names :
  map (fun t => fst (field_to_type t))
    [TArray None (TArray None (TIdent (s2b "int")));                   (* [][]int *)
     TArray (Some (TSelector (s2b "N"))) (TStar (TIdent (s2b "T")));   (* [pkg.N]*T *)
     TArray (Some TOther) (TIdent (s2b "int"));                         (* [N + 1]int *)
     TArray (Some (TEllipsis None)) (TIdent (s2b "int"));               (* [...]int (not accepted in a signature) *)
     TMap (TSelector (s2b "K")) (TArray None (TIdent (s2b "int")));     (* map[pkg.K][]int *)
     TChan (TStar (TIdent (s2b "T")));                                  (* <-chan *T *)
     TStar (TStar (TIdent (s2b "T")));                                  (* **T *)
     TStar TOther;                                                      (* *List[int] *)
     TInterface; TFunc; TOther;                                         (* interface{ M() }, func(int) string, struct{} *)
     TEllipsis (Some TInterface)] =                                     (* ...interface{} *)
  map s2b ["[]<unknown>"; "[N]*T"; "[<unknown>]int"; "[...]int"; "map[K]<unknown>"; "chan *T"; "**T"; "*<unknown>";
           "interface{}"; "func"; "<unknown>"; "interface{}"]%string.
Proof. vm_compute. reflexivity. Qed.

(* composition on ex_b: func (t *T) b(x, y int, rest ...string) with three words
   for the receiver and x, y and no variadic value: computed types, variadic
   flag set, receiver and integers rendered *)
Definition exb_f (_ : N) : bytes := s2b "<float>".
Example C19_ex_compose_b :
  (match extract_arguments_type ex_b with
   | Ok (types, ell) => augment_call exb_f exb_f types ell (args_of_words (fun _ => false) [824633802752; 18446744073709551615; 7]%N)
   | Panic m => Panic m
   end) = Ok (map s2b ["*T(0xc000014000)"; "-1"; "7"]%string).
Proof. vm_compute. reflexivity. Qed.

(* the hypotheses of C19_types_compose are satisfiable: func c(m map[string]int, n, k int8, s string) *)
Example C19_ex_params_match :
  params_match
    [mkField 1 (TMap (TIdent (s2b "string")) (TIdent (s2b "int")));
     mkField 2 (TIdent (s2b "int8")); mkField 0 (TIdent (s2b "string"))]
    ([PMap (s2b "string]int") 824633802752] ++ [PInt I8 (-5); PInt I8 7] ++ [PString 4921345 5] ++ []).
Proof.
  repeat (apply pm_cons; [reflexivity| |]); try apply pm_nil;
    intros p Hp; simpl in Hp; repeat (destruct Hp as [Hp|Hp]; [subst p; reflexivity|]); contradiction.
Qed.
