(* Properties/C08.v — Race detector report parse fidelity.  Statements only
   (every proof is an [exact] of a theorem of Proofs/RoundTripRace.v), plus
   concrete Examples checked by computation.

   Vocabulary (Spec/RacePrinter.v, no parser code in it):
     p_race_op       = {ro_write, ro_addr, ro_gid, ro_frames : list p_frame}
     p_race_creation = {rc_gid, rc_running, rc_frames : list p_frame}
     p_race          = {pr_ops, pr_creations}
     race_lines r    = the lines of the report, without their LF: separator,
                       warning, one section per operation (header, for each
                       frame a two-space function line and a six-space file
                       line, a blank line), the creation sections (header,
                       frames) separated by blank lines, separator
     text_of ls      = every line of ls followed by LF
     print_race r    = text_of (race_lines r)           (printRace of the harness)
     race_snapshot_of r = the goroutines the report denotes (expRace of the
                       harness): one per operation, in order, ID, First = (index
                       0), RaceWrite, RaceAddr, Stack; State (running /
                       finished) and CreatedBy from the creation sections with
                       the same id (the empty State and stack when there is none)
     print_op_header first w addr gid, print_creation_header gid running
                     = the header lines; N_to_hex012 = the 12-digit zero-padded
                       lower-case hexadecimal of the address
     wf_race r       = at least one operation; ids < 10^18 and pairwise distinct;
                       addresses < 2^64; every stack has >= 1 frame, each
                       well-formed (wf_frame (FISpaces 6), Spec/Printer.v);
                       at least one creation section, each naming the goroutine
                       of some operation (any order, any non-empty subset;
                       repeated sections are allowed).

   Vocabulary (Proofs/RoundTripRace.v, about the surrounding text and the
   scanner):
     junk_ok l       = l has no LF and, after the removal of one trailing CR,
                       is neither accepted as a goroutine header by the scanner
                       in its initial state nor equal to the race separator:
                       exactly the complete lines that ScanSnapshot forwards
                       while it is looking for a dump
     junk_line l     = the same as a proposition: no LF in l and
                       scan ss0 (l ++ [LF]) = Ok (ss0, false, None)
     Steps s ls s'   = from the scanner state s, the lines ls (each followed
                       by LF) are consumed one after the other, each with the
                       result (true, no error), and the scanner ends in s'
     frame_rt f      = parseFunc on the function line of f (after
                       trimLeftSpace) and parseFile on its file line yield the
                       Call that f denotes, and the two lines contain no LF
                       (what C08 needs from the line level of C01; wf_frame_rt
                       derives it from wf_frame (FISpaces 6) f = true)
     op_ok, creation_ok, race_ok = the propositional forms of wf_race_op,
                       wf_race_creation, wf_race with frame_rt for the frames.

   Vocabulary (Model): scan_snapshot name_args source = ScanSnapshot over a
   scripted io.Reader (content, delivery schedule, terminal error);
   stall_free sigma = no 100 consecutive zero-length reads (Spec/ReaderSpec.v);
   the result has snap (the goroutines, if any), fwd (the bytes written to the
   prefix writer), suffix (the bytes handed back), unread (what the reader has
   not delivered yet), rerr_out (the error), final_state, lines_read.
   suffix res ++ rest (unread res) is the text that a caller who resumes on
   the returned suffix and then on the reader gets to see.

   DISAGREEMENT between the printer and the scanner model (see
   C08_no_creation_section and the second Example): a report WITHOUT ANY
   creation section.  printRace then writes the closing separator right after
   the blank line that ends the last operation section.  The scanner, in state
   betweenRaceOperations, accepts only a Previous read|write header or a
   Goroutine N (...) created at: header there (stack/context.go, case
   betweenRaceOperations): the separator is refused with the error
   [expected a creation header] (ErrExpected 10); the goroutines are complete
   and correct, but ScanSnapshot returns the error, stays in
   betweenRaceOperations and hands the separator line back as suffix.  The
   closing separator is only recognised after a file line of a creation section
   (gotRaceGoroutineFile).  tsan prints a creation section for every goroutine
   but the main one (whose header, by main goroutine, the scanner does not
   read at all: documented TODO of the code), so the shape does not come from
   the race detector; the harness generator skips it; wf_race excludes it. *)
From PP Require Import Base.Bytes Base.BytesX Base.Num Base.GoResult Model.Types Model.Lines
  Model.FuncInit Model.ParseArgs Model.Scan Model.Reader Model.ScanSnapshot Model.Process.
From PP Require Import Spec.Printer Spec.RacePrinter Spec.ReaderSpec Proofs.ScanInv Proofs.RoundTripRace.
From Coq Require Import String.

Local Open Scope N_scope.

(* ------------------------------------------------------------------ *)
(* 0. concrete reports, by computation                                 *)
(* ------------------------------------------------------------------ *)

(* RacePrinter.ex_race: three operations by the goroutines 7 (Write), 12
   (Previous read), 3 (Previous write at address 1); nested and inaccurate
   arguments; the escaped package paths gopkg.in/yaml%2ev2 and
   example.com/a%20b/c++lib; creation sections for the goroutines 3
   (finished) and 7 (running), in that order, none for 12. *)
Definition ex_before_lines : list bytes :=
  [ s2b "2026/10/01 12:00:00 starting workers";
    s2b "some junk: goroutine 1 [not a header";
    s2b "=================== (19 signs)" ].
Definition ex_before : bytes := text_of ex_before_lines.
Definition ex_after : bytes := s2b "Found 1 data race(s)
exit status 66".

(* The report is embedded in other text and delivered in one piece.
   - snap: exactly the goroutines the report denotes;
   - fwd: the text before the report, nothing else;
   - suffix: ALL the text after the closing separator (the whole input was in
     the reader's 16 KiB buffer when the scan ended, and the scan ends in
     [done], where the buffered bytes are handed back: nothing is left unread);
   - rerr_out: nil (the report ended the scan, not the end of the stream);
   - final_state: done (the closing separator after a creation file line);
   - 3 + 26 lines were handed to the scanner. *)
Example C08_example :
  match scan_snapshot false (mkSource (ex_before ++ print_race ex_race ++ ex_after) [] EOF) with
  | Ok res =>
      snap res = Some (race_snapshot_of ex_race) /\
      fwd res = ex_before /\
      suffix res = ex_after /\
      rest (unread res) = [] /\
      rerr_out res = ENil /\
      final_state res = done /\
      lines_read res = 29%nat
  | Panic _ => False
  end.
Proof. vm_compute. repeat split. Qed.

(* the hypotheses of C08_fidelity hold of this input *)
Example C08_example_wf : wf_race ex_race = true /\ forallb junk_ok ex_before_lines = true.
Proof. vm_compute. repeat split. Qed.

(* The same operations without any creation section: printer and scanner
   disagree (see the header comment).  The goroutines are those the report
   denotes, but an error is returned and the closing separator comes back. *)
Example C08_example_no_creation :
  match scan_snapshot false
          (mkSource (ex_before ++ print_race (mkPRace (pr_ops ex_race) []) ++ ex_after) [] EOF) with
  | Ok res =>
      snap res = Some (race_snapshot_of (mkPRace (pr_ops ex_race) [])) /\
      fwd res = ex_before /\
      suffix res = (race_separator ++ [LF]) ++ ex_after /\
      rerr_out res = EScan (ErrExpected 10) /\
      final_state res = betweenRaceOperations
  | Panic _ => False
  end.
Proof. vm_compute. repeat split. Qed.

(* Two creation sections for the same goroutine (not a generator shape, not
   excluded by wf_race): the printer's snapshot and the scanner agree. *)
Example C08_example_repeated_creation :
  let r := mkPRace (pr_ops ex_race) (pr_creations ex_race ++ pr_creations ex_race) in
  wf_race r = true /\
  match scan_snapshot false (mkSource (print_race r) [] EOF) with
  | Ok res => snap res = Some (race_snapshot_of r) /\ rerr_out res = ENil /\ final_state res = done
  | Panic _ => False
  end.
Proof. vm_compute. repeat split. Qed.

(* ------------------------------------------------------------------ *)
(* 1. fidelity                                                         *)
(* ------------------------------------------------------------------ *)

(* For every well-formed report, printed between complete lines of other text
   (blines) and ANY text after it, delivered by ANY stall-free schedule with
   any terminal error: the snapshot is exactly the one the report denotes; the
   text before is forwarded and nothing else; the scan ends in [done] without
   error; what is handed back plus what the reader has not delivered is
   exactly the text after the closing separator. *)
Theorem C08_fidelity : forall r blines after sigma f,
  wf_race r = true -> forallb junk_ok blines = true -> stall_free sigma ->
  exists res,
    scan_snapshot false (mkSource (text_of blines ++ print_race r ++ after) sigma f) = Ok res /\
    snap res = Some (race_snapshot_of r) /\
    fwd res = text_of blines /\
    suffix res ++ rest (unread res) = after /\
    rerr_out res = ENil /\
    final_state res = done /\
    lines_read res = (List.length blines + List.length (race_lines r))%nat.
Proof. exact RoundTripRace.fidelity. Qed.
Print Assumptions C08_fidelity.

(* The same from the propositional hypotheses: any frames that satisfy the
   line-level round trip frame_rt (C08_wf_frame_rt: the well-formed ones do). *)
Theorem C08_fidelity_frames : forall r blines after sigma f,
  race_ok r -> Forall junk_line blines -> stall_free sigma ->
  exists res,
    scan_snapshot false (mkSource (text_of blines ++ print_race r ++ after) sigma f) = Ok res /\
    snap res = Some (race_snapshot_of r) /\
    fwd res = text_of blines /\
    suffix res ++ rest (unread res) = after /\
    rerr_out res = ENil /\
    final_state res = done /\
    lines_read res = (List.length blines + List.length (race_lines r))%nat.
Proof. exact RoundTripRace.fidelity_frames. Qed.
Print Assumptions C08_fidelity_frames.

Theorem C08_wf_frame_rt : forall f, wf_frame (FISpaces 6) f = true -> frame_rt f.
Proof. exact RoundTripRace.wf_frame_rt. Qed.
Print Assumptions C08_wf_frame_rt.

Theorem C08_wf_race_ok : forall r, wf_race r = true -> race_ok r.
Proof. exact RoundTripRace.wf_race_ok. Qed.
Print Assumptions C08_wf_race_ok.

Theorem C08_junk_ok_line : forall l, junk_ok l = true -> junk_line l.
Proof. exact RoundTripRace.junk_ok_line. Qed.
Print Assumptions C08_junk_ok_line.

(* the scanner alone, without the reader: the lines of the report take it from
   its initial state to [done] with the goroutines the report denotes *)
Theorem C08_race_steps : forall r, race_ok r ->
  exists idx, Steps ss0 (race_lines r) (mkSS (race_snapshot_of r) done [] idx).
Proof. exact RoundTripRace.race_steps. Qed.
Print Assumptions C08_race_steps.

(* ------------------------------------------------------------------ *)
(* 2. a creation section for an unknown goroutine                      *)
(* ------------------------------------------------------------------ *)

(* Between two sections of a report, a creation header whose id is the id of
   no goroutine read so far is an error and changes nothing: the section is
   attributed to no goroutine. *)
Theorem C08_unknown_creator : forall s n running,
  st s = betweenRaceGoroutines \/ st s = betweenRaceOperations ->
  sprefix s = [] -> n < dec_limit ->
  (forall g, In g (goroutines s) -> ID g <> Z.of_N n) ->
  scan s (print_creation_header n running ++ [LF]) = Ok (s, false, Some (ErrRace 2)).
Proof. exact RoundTripRace.unknown_creator. Qed.
Print Assumptions C08_unknown_creator.

(* The same for a whole report: well-formed operations, well-formed creation
   sections cs1, then a section c for a goroutine that took part in no
   operation, then anything.  ScanSnapshot stops at the header of c with an
   error; the goroutines are those of the report with the sections cs1 only;
   the header of c and everything after it is handed back. *)
Theorem C08_unknown_creator_report : forall ops cs1 c cs2 blines after sigma f,
  ops <> [] -> forallb wf_race_op ops = true -> distinct_N (map ro_gid ops) = true ->
  forallb (wf_race_creation ops) cs1 = true ->
  wf_num (rc_gid c) = true -> existsb (fun op => ro_gid op =? rc_gid c) ops = false ->
  forallb junk_ok blines = true -> stall_free sigma ->
  exists res,
    scan_snapshot false
      (mkSource (text_of blines ++ print_race (mkPRace ops (cs1 ++ c :: cs2)) ++ after) sigma f) = Ok res /\
    snap res = Some (race_snapshot_of (mkPRace ops cs1)) /\
    fwd res = text_of blines /\
    suffix res ++ rest (unread res) =
      text_of (race_creations_lines (c :: cs2) ++ [race_separator]) ++ after /\
    rerr_out res = EScan (ErrRace 2) /\
    final_state res = match cs1 with [] => betweenRaceOperations | _ => betweenRaceGoroutines end.
Proof. exact RoundTripRace.unknown_creator_report. Qed.
Print Assumptions C08_unknown_creator_report.

(* ------------------------------------------------------------------ *)
(* 3. the disagreement: no creation section at all                     *)
(* ------------------------------------------------------------------ *)

Theorem C08_no_creation_section : forall ops blines after sigma f,
  ops <> [] -> forallb wf_race_op ops = true -> forallb junk_ok blines = true -> stall_free sigma ->
  exists res,
    scan_snapshot false (mkSource (text_of blines ++ print_race (mkPRace ops []) ++ after) sigma f) = Ok res /\
    snap res = Some (race_snapshot_of (mkPRace ops [])) /\
    fwd res = text_of blines /\
    suffix res ++ rest (unread res) = (race_separator ++ [LF]) ++ after /\
    rerr_out res = EScan (ErrExpected 10) /\
    final_state res = betweenRaceOperations.
Proof. exact RoundTripRace.no_creation_section. Qed.
Print Assumptions C08_no_creation_section.

(* ------------------------------------------------------------------ *)
(* 4. the header lines                                                 *)
(* ------------------------------------------------------------------ *)

Theorem C08_match_race_op_print : forall w a g,
  match_race_op (print_op_header true w a g) = Some (w, s2b "0x" ++ N_to_hex012 a, N_to_dec g).
Proof. exact RoundTripRace.match_race_op_print. Qed.
Print Assumptions C08_match_race_op_print.

Theorem C08_match_race_prev_print : forall w a g,
  match_race_prev (print_op_header false w a g) = Some (w, s2b "0x" ++ N_to_hex012 a, N_to_dec g).
Proof. exact RoundTripRace.match_race_prev_print. Qed.
Print Assumptions C08_match_race_prev_print.

Theorem C08_match_race_goroutine_print : forall n running,
  match_race_goroutine (print_creation_header n running) = Some (N_to_dec n, race_state_text running).
Proof. exact RoundTripRace.match_race_goroutine_print. Qed.
Print Assumptions C08_match_race_goroutine_print.

(* the zero-padded address is read back by strconv.ParseUint(s, 0, 64) *)
Theorem C08_parse_uint_hex012 : forall a, a < 18446744073709551616 ->
  parse_uint (s2b "0x" ++ N_to_hex012 a) = Some a.
Proof. exact RoundTripRace.parse_uint_hex012. Qed.
Print Assumptions C08_parse_uint_hex012.

(* ------------------------------------------------------------------ *)
(* 5. what race_snapshot_of says, field by field                       *)
(* ------------------------------------------------------------------ *)

(* one goroutine per operation, in printed order *)
Theorem C08_snapshot_length : forall r, List.length (race_snapshot_of r) = List.length (pr_ops r).
Proof. exact RoundTripRace.snapshot_length. Qed.
Print Assumptions C08_snapshot_length.

Theorem C08_snapshot_nth : forall r i op,
  nth_error (pr_ops r) i = Some op ->
  nth_error (race_snapshot_of r) i = Some (race_goroutine_of (pr_creations r) (Nat.eqb i 0) op).
Proof. exact RoundTripRace.snapshot_nth. Qed.
Print Assumptions C08_snapshot_nth.

(* only the goroutine of index 0 is First *)
Theorem C08_first_unique : forall r i g,
  nth_error (race_snapshot_of r) i = Some g -> First g = Nat.eqb i 0.
Proof. exact RoundTripRace.snapshot_first. Qed.
Print Assumptions C08_first_unique.

Theorem C08_snapshot_ids : forall r,
  map ID (race_snapshot_of r) = map (fun op => Z.of_N (ro_gid op)) (pr_ops r).
Proof. exact RoundTripRace.snapshot_ids. Qed.
Print Assumptions C08_snapshot_ids.

Theorem C08_snapshot_writes : forall r, map RaceWrite (race_snapshot_of r) = map ro_write (pr_ops r).
Proof. exact RoundTripRace.snapshot_writes. Qed.
Print Assumptions C08_snapshot_writes.

Theorem C08_snapshot_addrs : forall r, map RaceAddr (race_snapshot_of r) = map ro_addr (pr_ops r).
Proof. exact RoundTripRace.snapshot_addrs. Qed.
Print Assumptions C08_snapshot_addrs.

Theorem C08_snapshot_stacks : forall r,
  map (fun g => SStack (GSig g)) (race_snapshot_of r) =
  map (fun op => mkStack (map call_of_frame (ro_frames op)) false) (pr_ops r).
Proof. exact RoundTripRace.snapshot_stacks. Qed.
Print Assumptions C08_snapshot_stacks.

(* Snapshot.IsRace() looks at the address of the first goroutine: a report is
   reported as a race iff the address of its first operation is not 0 *)
Theorem C08_snapshot_is_race : forall r op ops,
  pr_ops r = op :: ops -> is_race (race_snapshot_of r) = negb (ro_addr op =? 0).
Proof. exact RoundTripRace.snapshot_is_race. Qed.
Print Assumptions C08_snapshot_is_race.

(* a goroutine without creation section: empty State, empty CreatedBy *)
Theorem C08_snapshot_no_creation : forall cs first op,
  (forall c, In c cs -> rc_gid c <> ro_gid op) ->
  State (GSig (race_goroutine_of cs first op)) = [] /\
  CreatedBy (GSig (race_goroutine_of cs first op)) = emptyStack.
Proof. exact RoundTripRace.snapshot_no_creation. Qed.
Print Assumptions C08_snapshot_no_creation.

(* a goroutine with exactly one creation section, wherever it is printed *)
Theorem C08_snapshot_creation : forall cs1 c cs2 first op,
  (forall c', In c' cs1 -> rc_gid c' <> ro_gid op) -> rc_gid c = ro_gid op ->
  (forall c', In c' cs2 -> rc_gid c' <> ro_gid op) ->
  State (GSig (race_goroutine_of (cs1 ++ c :: cs2) first op)) = race_state_text (rc_running c) /\
  CreatedBy (GSig (race_goroutine_of (cs1 ++ c :: cs2) first op)) =
    mkStack (map call_of_frame (rc_frames c)) false.
Proof. exact RoundTripRace.snapshot_creation. Qed.
Print Assumptions C08_snapshot_creation.
